package h

// apiquirks: legal but unusual call sequences on one RPC - CloseSend twice,
// send after CloseSend, send / close after cancel, reads repeated after the
// terminal result, Header() after the end, a handler that sends headers twice
// or sets headers after sending them. Whatever each call returns, the wire must
// stay conforming (C13: half-close and cancel at most once, nothing after
// half-close, headers once), nothing may hang (C04) and a bystander must not
// notice (C03).

import (
	"context"
	"fmt"
	"math/rand"
	"time"

	"google.golang.org/grpc/metadata"
)

var quirkScripts = map[string]func() *RPCSpec{
	"close-twice": func() *RPCSpec {
		return &RPCSpec{Method: "Bidi", Client: []Op{{K: "open"}, {K: "send", N: 100}, {K: "close"}, {K: "close"}, {K: "close"}, {K: "recvall"}},
			Handler: []Op{{K: "recvall"}, {K: "send", N: 7}, {K: "ret"}}}
	},
	"close-send-close": func() *RPCSpec {
		return &RPCSpec{Method: "Bidi", Client: []Op{{K: "open"}, {K: "send", N: 100}, {K: "close"}, {K: "send", N: 20000}, {K: "close"}, {K: "recvall"}},
			Handler: []Op{{K: "recvall"}, {K: "send", N: 7}, {K: "ret"}}}
	},
	"cancel-then-everything": func() *RPCSpec {
		return &RPCSpec{Method: "Bidi", Client: []Op{{K: "open"}, {K: "send", N: 100}, {K: "recv"}, {K: "cancel"}, {K: "send", N: 50000}, {K: "close"}, {K: "close"}, {K: "recvall"}, {K: "header"}, {K: "trailer"}},
			Handler: []Op{{K: "recv"}, {K: "send", N: 7}, {K: "recvall"}, {K: "ret"}}}
	},
	"reads-after-end": func() *RPCSpec {
		return &RPCSpec{Method: "ServerStream", Client: []Op{{K: "open"}, {K: "send", N: 10}, {K: "close"}, {K: "recvall"}, {K: "recv"}, {K: "recv"}, {K: "header"}, {K: "trailer"}, {K: "close"}, {K: "send", N: 5}},
			Handler: []Op{{K: "recv"}, {K: "send", N: 30000}, {K: "send", N: 1}, {K: "ret"}}}
	},
	"headers-twice": func() *RPCSpec {
		return &RPCSpec{Method: "Bidi", Client: []Op{{K: "open"}, {K: "send", N: 10}, {K: "close"}, {K: "header"}, {K: "recvall"}, {K: "trailer"}},
			Handler: []Op{{K: "recv"}, {K: "sendhdr", MD: metadata.MD{"a": {"1"}}}, {K: "sendhdr", MD: metadata.MD{"b": {"2"}}}, {K: "sethdr", MD: metadata.MD{"c": {"3"}}}, {K: "send", N: 9}, {K: "sethdr", MD: metadata.MD{"d": {"4"}}}, {K: "settrl", MD: metadata.MD{"t": {"5"}}}, {K: "ret"}}}
	},
	"unary-via-stream-close-first": func() *RPCSpec {
		return &RPCSpec{Method: "Unary", Client: []Op{{K: "open"}, {K: "close"}, {K: "send", N: 10}, {K: "recvall"}},
			Handler: []Op{{K: "recv"}, {K: "send", N: 5}, {K: "ret"}}}
	},
	"nothing-but-close": func() *RPCSpec {
		return &RPCSpec{Method: "ClientStream", Client: []Op{{K: "open"}, {K: "close"}, {K: "close"}, {K: "recvall"}, {K: "recvall"}},
			Handler: []Op{{K: "recvall"}, {K: "send", N: 5}, {K: "ret"}}}
	},
}

var quirkNames = []string{"close-twice", "close-send-close", "cancel-then-everything", "reads-after-end", "headers-twice", "unary-via-stream-close-first", "nothing-but-close"}

func init() {
	families["apiquirks"] = famAPIQuirks
	// (listed by C13, C04 and C03: see fam_zlate.go - this file's init runs before the base
	// listers of those checks are assigned)
}

func apiQuirkCases(tier string, seed int64) []Case {
	var out []Case
	rng := rand.New(rand.NewSource(seed*557 + 31))
	reps := 1
	if tier == "thorough" {
		reps = 30
	}
	for r := 0; r < reps; r++ {
		for _, q := range quirkNames {
			for _, dir := range allDirs {
				cfg := WorldCfg{Dir: dir}
				if (r+len(q)+len(dir))%3 == 0 {
					cfg.ClientNoFC, cfg.ServerNoFC = true, true
				}
				out = append(out, Case{Family: "apiquirks", Seed: rng.Int63(), Cfg: cfg, S: map[string]string{"quirk": q}})
			}
		}
	}
	return out
}

func famAPIQuirks(w *World, c *Case, rng *rand.Rand) {
	if err := w.Open(nil); err != nil {
		w.Violate("C11", "open-failed", "opening the tunnel failed in configuration %s: %v", w.Cfg, err)
		w.Finish()
		return
	}
	q := c.s("quirk", "close-twice")
	w.SigExtra = q
	by := &RPCSpec{ID: "by", Method: "Bidi",
		Client:  []Op{{K: "open"}, {K: "send", N: 2000}, {K: "recv"}, {K: "sync", Name: "fin"}, {K: "send", N: 30000}, {K: "recv"}, {K: "close"}, {K: "recvall"}},
		Handler: []Op{{K: "recv"}, {K: "send", N: 3000}, {K: "recv"}, {K: "send", N: 40000}, {K: "recvall"}, {K: "ret"}}}
	w.Env.StartRPC(context.Background(), w.Ch, by)
	w.Advance(time.Millisecond)
	var qs []*RPCSpec
	for i := 0; i < 2; i++ {
		s := quirkScripts[q]()
		s.ID = fmt.Sprintf("q%d", i)
		qs = append(qs, s)
		w.Env.StartRPC(context.Background(), w.Ch, s)
		if i == 0 {
			w.Advance(time.Millisecond)
		}
	}
	w.Advance(time.Second)
	w.Env.Signal("fin")
	w.Advance(time.Second)
	for _, r := range w.Env.Log.OpenOps() {
		w.Violate("C04", "op-hangs:"+r.Side+":"+r.K, "apiquirks %s: %s %s[%d] of rpc %s never returned", q, r.Side, r.K, r.Idx, r.RPC)
	}
	views := buildViews(w.Env)
	if t := clientTerminal(views["by"]); t == nil || !t.EOF {
		e := "<none>"
		if t != nil {
			e = t.Err
		}
		w.Violate("C03", "bystander-failed", "apiquirks %s: the bystander ended with %s", q, e)
	}
	select {
	case <-w.TCh.Done():
		w.Violate("C03", "tunnel-ended-by-rpc", "apiquirks %s ended the tunnel: %v", q, w.TCh.Err())
	default:
	}
	w.CheckDelivery()
	w.CheckTables(w.TCh, 0, 0, true, "after api quirks")
	w.Stat("apiquirks_runs", 1)
	w.Finish()
}
