package h

// Real grpc-go over loopback TCP as a second carrier (stress engine only).

import (
	"net"
	"sync"

	"google.golang.org/grpc"
	"google.golang.org/grpc/credentials/insecure"
)

type grpcCarrier struct {
	srv  *grpc.Server
	lis  net.Listener
	cc   *grpc.ClientConn
	once sync.Once
}

func newGRPCCarrier() *grpcCarrier {
	return &grpcCarrier{srv: grpc.NewServer()}
}

func (g *grpcCarrier) start() *grpc.ClientConn {
	g.once.Do(func() {
		lis, err := net.Listen("tcp", "127.0.0.1:0")
		if err != nil {
			panic(err)
		}
		g.lis = lis
		go func() { _ = g.srv.Serve(lis) }()
		cc, err := grpc.NewClient(lis.Addr().String(), grpc.WithTransportCredentials(insecure.NewCredentials()))
		if err != nil {
			panic(err)
		}
		g.cc = cc
	})
	return g.cc
}

func (g *grpcCarrier) stop() {
	if g.cc != nil {
		_ = g.cc.Close()
	}
	g.srv.Stop()
}
