package h

// World: builds tunnels of every configuration over a MemConn inside a
// synctest bubble, runs a scenario, drains it to quiescence and applies the
// end-of-scenario monitors (tables, goroutine leaks, canaries).

import (
	"context"
	"fmt"
	"regexp"
	"runtime"
	"sort"
	"strings"
	"sync"
	"sync/atomic"
	"testing"
	"testing/synctest"
	"time"

	"google.golang.org/grpc"
	"google.golang.org/grpc/metadata"

	"github.com/jhump/grpctunnel"
	"github.com/jhump/grpctunnel/tunnelpb"
)

// WorldCfg is the configuration axis set of a scenario.
type WorldCfg struct {
	Dir        string        `json:"dir"`               // forward, reverse, nested-ff, nested-rf
	Carrier    string        `json:"carrier,omitempty"` // "" = in-memory carrier, "grpc" = real grpc-go over loopback TCP
	ClientNoFC bool          `json:"client_nofc,omitempty"`
	ServerNoFC bool          `json:"server_nofc,omitempty"`
	StripReq   bool          `json:"strip_req,omitempty"`
	StripResp  bool          `json:"strip_resp,omitempty"`
	CapFrames  int           `json:"cap_frames,omitempty"`
	CapBytes   int           `json:"cap_bytes,omitempty"`
	Latency    time.Duration `json:"latency,omitempty"`
	Gated      bool          `json:"gated,omitempty"`
	ByRef      bool          `json:"by_ref,omitempty"` // carrier encodes frames at delivery, not inside Send
}

func (c WorldCfg) String() string {
	s := c.Dir
	if c.Carrier != "" {
		s += "," + c.Carrier
	}
	if c.ClientNoFC {
		s += ",cnofc"
	}
	if c.ServerNoFC {
		s += ",snofc"
	}
	if c.ByRef {
		s += ",byref"
	}
	if c.StripReq {
		s += ",stripreq"
	}
	if c.StripResp {
		s += ",stripresp"
	}
	if c.CapFrames > 0 {
		s += fmt.Sprintf(",cap%d", c.CapFrames)
	}
	if c.CapBytes > 0 {
		s += fmt.Sprintf(",capb%d", c.CapBytes)
	}
	if c.Latency > 0 {
		s += fmt.Sprintf(",lat%s", c.Latency)
	}
	if c.Gated {
		s += ",gated"
	}
	return s
}

// RevisionOne reports whether this configuration negotiates flow control.
func (c WorldCfg) RevisionOne() bool {
	return !c.ClientNoFC && !c.ServerNoFC && !c.StripReq && !c.StripResp
}

// Violation is one refuted obligation.
type Violation struct {
	Prop string `json:"prop"`
	Key  string `json:"key"` // stable class of what failed (for known findings)
	Msg  string `json:"msg"`
}

// ServeResult records what a ReverseTunnelServer.Serve call returned.
type ServeResult struct {
	Ident    string
	Returned bool
	Started  bool
	Err      error
	RetVT    time.Duration
}

// World is one scenario's universe.
type World struct {
	T    *testing.T
	Cfg  WorldCfg
	Env  *Env
	Tap  *Tap
	Conn *MemConn

	Handler *grpctunnel.TunnelServiceHandler
	Inner   *grpctunnel.TunnelServiceHandler // tunnel service exposed over a reverse tunnel (nested-fr / nested-rr)
	Stub    tunnelpb.TunnelServiceClient

	// outer tunnel (forward tunnels and the outer leg of nested ones)
	Outer grpctunnel.TunnelChannel
	// the channel RPCs are issued on
	Ch grpc.ClientConnInterface
	// the TunnelChannel that carries them, when a single one does
	TCh grpctunnel.TunnelChannel

	RevSrvs []*grpctunnel.ReverseTunnelServer
	Serves  []*ServeResult

	RootCtx    context.Context
	RootCancel context.CancelFunc

	mu         sync.Mutex
	Violations []Violation
	Stats      map[string]int
	Notes      []string
	Opened     []grpctunnel.TunnelChannel
	Closed     []grpctunnel.TunnelChannel

	idleGoroutines int
	idleMarked     bool

	// Free: running outside a synctest bubble (stress engine E2).
	Free bool
	GRPC *grpcCarrier

	// SigExtra is folded into the distinctness signature (inputs not visible in the op log).
	SigExtra string

	Wire   *WireMonitor
	Window *WindowMonitor
	yield  *YieldPlan
	jitter atomic.Int64
	// symptom collection (CollectSymptoms / FlushSymptoms)
	symptomProp string
	symptomKey  string
	symptoms    []string
	start       time.Time
}

// Violate records a violation.
func (w *World) Violate(prop, key, format string, args ...any) {
	w.mu.Lock()
	defer w.mu.Unlock()
	if w.symptomProp != "" && prop == w.symptomProp {
		// collected as symptoms of one finding (see CollectSymptoms)
		w.symptoms = append(w.symptoms, key+": "+fmt.Sprintf(format, args...))
		return
	}
	if len(w.Violations) < 50 {
		w.Violations = append(w.Violations, Violation{Prop: prop, Key: key, Msg: fmt.Sprintf(format, args...)})
	}
}

// CollectSymptoms makes violations of prop accumulate instead of being recorded
// one by one, until FlushSymptoms turns them into a single violation. Used where
// one observed condition (a receive loop parked on an unread revision-zero
// stream) explains a whole bundle of symptoms: the bundle is then keyed by the
// condition, not by each symptom, so that the known-findings list stays specific.
func (w *World) CollectSymptoms(prop, key string) {
	w.mu.Lock()
	w.symptomProp, w.symptomKey, w.symptoms = prop, key, nil
	w.mu.Unlock()
}

// FlushSymptoms ends the collection (Finish does it, before tearing down); if
// anything was collected it is recorded as one violation under the key given
// to CollectSymptoms.
func (w *World) FlushSymptoms() {
	w.mu.Lock()
	prop, key, syms := w.symptomProp, w.symptomKey, w.symptoms
	w.symptomProp, w.symptomKey, w.symptoms = "", "", nil
	w.mu.Unlock()
	if prop != "" && len(syms) > 0 {
		if len(syms) > 12 {
			syms = append(syms[:12], fmt.Sprintf("... and %d more", len(syms)-12))
		}
		w.Violate(prop, key, "%d symptom(s):\n  %s", len(syms), strings.Join(syms, "\n  "))
	}
}

// parkedRev0Loop reports which receive loop, if any, is at this moment parked
// handing a frame to a revision-zero stream that nobody reads.
func parkedRev0Loop() string {
	calling, serving := false, false
	for _, g := range BubbleGoroutines() {
		if strings.Contains(g, "noFlowControlReceiver") && strings.Contains(g, ".accept(") {
			switch {
			case strings.Contains(g, ".recvLoop("):
				calling = true
			case strings.Contains(g, "(*tunnelServer).serve("):
				serving = true
			}
		}
	}
	switch {
	case calling && serving:
		return ":receive-loops-of-both-sides-parked-on-unread-rev0-streams"
	case calling:
		return ":calling-side-receive-loop-parked-on-unread-rev0-stream"
	case serving:
		return ":serving-side-receive-loop-parked-on-unread-rev0-stream"
	}
	return ""
}

// Stat adds to a named counter.
func (w *World) Stat(name string, n int) {
	w.mu.Lock()
	defer w.mu.Unlock()
	w.Stats[name] += n
}

// Note adds a free-text note to the scenario result.
func (w *World) Note(format string, args ...any) {
	w.mu.Lock()
	defer w.mu.Unlock()
	if len(w.Notes) < 40 {
		w.Notes = append(w.Notes, fmt.Sprintf(format, args...))
	}
}

// VT is the virtual time since the world was created.
func (w *World) VT() time.Duration { return time.Since(w.start) }

// Wait blocks until every bubble goroutine is durably blocked. In free-running
// (non-bubble) mode it is a short real-time pause.
func (w *World) Wait() {
	if w.Free {
		time.Sleep(2 * time.Millisecond)
		return
	}
	synctest.Wait()
}

// Advance moves the virtual clock and waits for quiescence. In free-running
// mode it waits in real time (bounded) for the actors to settle.
func (w *World) Advance(d time.Duration) {
	if w.Free {
		if d > 100*time.Millisecond {
			d = 100 * time.Millisecond
		}
		time.Sleep(d)
		return
	}
	time.Sleep(d)
	synctest.Wait()
}

// carrierUp registers the tunnel service on the configured carrier, brings the
// carrier up and returns the stub.
func (w *World) carrierUp(svc tunnelpb.TunnelServiceServer) tunnelpb.TunnelServiceClient {
	if w.Cfg.Carrier == "grpc" {
		if w.GRPC == nil {
			w.GRPC = newGRPCCarrier()
		}
		tunnelpb.RegisterTunnelServiceServer(w.GRPC.srv, svc)
		return tunnelpb.NewTunnelServiceClient(w.GRPC.start())
	}
	tunnelpb.RegisterTunnelServiceServer(w.Conn, svc)
	return tunnelpb.NewTunnelServiceClient(w.Conn)
}

// onNewWorld lets the worker remember the world of the running case (watchdog diagnostics).
var onNewWorld func(*World)

// NewWorld creates the carrier, handler and service registrations; tunnels are
// opened by Open().
func NewWorld(t *testing.T, cfg WorldCfg) *World {
	w := &World{T: t, Cfg: cfg, Stats: map[string]int{}, start: time.Now()}
	w.Env = NewEnv()
	w.Env.Anomaly = func(prop, key, msg string) { w.Violate(prop, key, "%s", msg) }
	w.Tap = NewTap()
	w.Tap.SeqSrc = &w.Env.Seq
	w.Wire = NewWireMonitor(w)
	w.Window = NewWindowMonitor(w)
	w.Tap.AddSink(w.Wire)
	w.Tap.AddSink(w.Window)
	w.Conn = NewMemConn(ConnConfig{
		CapFrames:              cfg.CapFrames,
		CapBytes:               cfg.CapBytes,
		Latency:                cfg.Latency,
		StripNegotiateRequest:  cfg.StripReq,
		StripNegotiateResponse: cfg.StripResp,
		ByRef:                  cfg.ByRef,
		Decorate: func(ctx context.Context, l *Link) context.Context {
			return context.WithValue(ctx, ctxValKey{}, fmt.Sprintf("ctxval-link-%d", l.ID))
		},
	}, w.Tap)
	w.RootCtx, w.RootCancel = context.WithCancel(context.Background())
	if onNewWorld != nil {
		onNewWorld(w)
	}
	return w
}

func (w *World) clientOpts() []grpctunnel.TunnelOption {
	if w.Cfg.ClientNoFC {
		return []grpctunnel.TunnelOption{grpctunnel.WithDisableFlowControl()}
	}
	return nil
}

func (w *World) serverOpts() []grpctunnel.TunnelOption {
	if w.Cfg.ServerNoFC {
		return []grpctunnel.TunnelOption{grpctunnel.WithDisableFlowControl()}
	}
	return nil
}

// NewHandler creates the network-server side handler. In forward mode it is
// the tunnel server (serverNoFC applies); in reverse mode the tunnel client.
func (w *World) NewHandler(disableFC bool, keyFn func(grpctunnel.TunnelChannel) any) *grpctunnel.TunnelServiceHandler {
	hd := grpctunnel.NewTunnelServiceHandler(grpctunnel.TunnelServiceHandlerOptions{
		DisableFlowControl: disableFC,
		AffinityKey:        keyFn,
		OnReverseTunnelOpen: func(ch grpctunnel.TunnelChannel) {
			w.mu.Lock()
			w.Opened = append(w.Opened, ch)
			w.mu.Unlock()
		},
		OnReverseTunnelClose: func(ch grpctunnel.TunnelChannel) {
			w.mu.Lock()
			w.Closed = append(w.Closed, ch)
			w.mu.Unlock()
		},
	})
	return hd
}

// AffinityFromMD derives the affinity key from the "x-key" opening metadata.
func AffinityFromMD(ch grpctunnel.TunnelChannel) any {
	md, _ := metadata.FromIncomingContext(ch.Context())
	if v := md.Get("x-key"); len(v) > 0 {
		if v[0] == "<nil>" {
			return nil
		}
		return v[0]
	}
	return nil
}

// Open builds the configured topology and sets w.Ch / w.TCh. openMD is the
// metadata attached to the tunnel-opening call.
func (w *World) Open(openMD metadata.MD) error {
	ctx := context.WithValue(w.RootCtx, ctxValKey{}, "opener-ctx")
	if openMD != nil {
		ctx = metadata.NewOutgoingContext(ctx, openMD.Copy())
	}
	switch w.Cfg.Dir {
	case "forward", "nested-ff", "nested-rf":
		w.Handler = w.NewHandler(w.Cfg.ServerNoFC, AffinityFromMD)
		desc, impl := NewSvc(w.Env, "fwd")
		w.Handler.RegisterService(desc, impl)
		if w.Cfg.Dir != "forward" {
			// expose the tunnel service itself over the tunnel for nesting
			tunnelpb.RegisterTunnelServiceServer(w.Handler, w.Handler.Service())
		}
		w.Stub = w.carrierUp(w.Handler.Service())
		ch, err := grpctunnel.NewChannel(w.Stub, w.clientOpts()...).Start(ctx)
		if err != nil {
			return err
		}
		w.Outer = ch
		w.Ch, w.TCh = ch, ch
		switch w.Cfg.Dir {
		case "nested-ff":
			inner, err := grpctunnel.NewChannel(tunnelpb.NewTunnelServiceClient(ch), w.clientOpts()...).Start(ctx)
			if err != nil {
				return fmt.Errorf("nested start: %w", err)
			}
			w.Ch, w.TCh = inner, inner
		case "nested-rf":
			rs := grpctunnel.NewReverseTunnelServer(tunnelpb.NewTunnelServiceClient(ch), w.serverOpts()...)
			d2, i2 := NewSvc(w.Env, "nested-rev")
			rs.RegisterService(d2, i2)
			w.startServe(rs, ctx, "nested-rev")
			w.awaitRegistered(1)
			all := w.Handler.AllReverseTunnels()
			if len(all) != 1 {
				return fmt.Errorf("nested reverse tunnel not registered (%d)", len(all))
			}
			w.Ch, w.TCh = all[0], all[0]
		}
	case "reverse", "nested-fr", "nested-rr":
		// network server: handler is the tunnel client end
		w.Handler = w.NewHandler(w.Cfg.ClientNoFC, AffinityFromMD)
		w.Stub = w.carrierUp(w.Handler.Service())
		rs := grpctunnel.NewReverseTunnelServer(w.Stub, w.serverOpts()...)
		desc, impl := NewSvc(w.Env, "rev-0")
		rs.RegisterService(desc, impl)
		// for nesting inside the reverse tunnel the reverse-tunnel server also exposes a tunnel service
		var inner *grpctunnel.TunnelServiceHandler
		if w.Cfg.Dir != "reverse" {
			inner = grpctunnel.NewTunnelServiceHandler(grpctunnel.TunnelServiceHandlerOptions{DisableFlowControl: w.Cfg.ServerNoFC, AffinityKey: AffinityFromMD})
			d2, i2 := NewSvc(w.Env, "inner-fwd")
			inner.RegisterService(d2, i2)
			tunnelpb.RegisterTunnelServiceServer(rs, inner.Service())
			w.Inner = inner
		}
		w.startServe(rs, ctx, "rev-0")
		w.awaitRegistered(1)
		all := w.Handler.AllReverseTunnels()
		if len(all) != 1 {
			sr := w.ServeState(0)
			return fmt.Errorf("reverse tunnel not registered (%d), serve returned=%v err=%v", len(all), sr.Returned, sr.Err)
		}
		w.Ch, w.TCh = all[0], all[0]
		w.Outer = all[0]
		switch w.Cfg.Dir {
		case "nested-fr":
			// a forward tunnel opened over the reverse tunnel (from the network server's side)
			ich, err := grpctunnel.NewChannel(tunnelpb.NewTunnelServiceClient(all[0]), w.clientOpts()...).Start(ctx)
			if err != nil {
				return fmt.Errorf("nested start over reverse tunnel: %w", err)
			}
			w.Ch, w.TCh = ich, ich
		case "nested-rr":
			// a reverse tunnel opened over the reverse tunnel: its serving end lives on the network server's side
			irs := grpctunnel.NewReverseTunnelServer(tunnelpb.NewTunnelServiceClient(all[0]), w.serverOpts()...)
			d3, i3 := NewSvc(w.Env, "nested-rev")
			irs.RegisterService(d3, i3)
			w.startServe(irs, ctx, "nested-rev")
			if !w.Free {
				w.Advance(10 * time.Millisecond)
			} else {
				for i := 0; i < 2000 && len(inner.AllReverseTunnels()) < 1; i++ {
					time.Sleep(5 * time.Millisecond)
				}
			}
			in := inner.AllReverseTunnels()
			if len(in) != 1 {
				return fmt.Errorf("nested reverse tunnel over reverse tunnel not registered (%d)", len(in))
			}
			w.Ch, w.TCh = in[0], in[0]
		}
	default:
		return fmt.Errorf("unknown dir %q", w.Cfg.Dir)
	}
	w.MarkIdle()
	return nil
}

// awaitRegistered waits until n reverse tunnels are registered (bubble: one
// step of virtual time; free-running: polling in real time, bounded).
func (w *World) awaitRegistered(n int) {
	if !w.Free {
		w.Advance(10 * time.Millisecond)
		return
	}
	for i := 0; i < 2000 && len(w.Handler.AllReverseTunnels()) < n; i++ {
		time.Sleep(5 * time.Millisecond)
	}
}

func (w *World) startServe(rs *grpctunnel.ReverseTunnelServer, ctx context.Context, ident string) *ServeResult {
	sr := &ServeResult{Ident: ident}
	w.mu.Lock()
	w.RevSrvs = append(w.RevSrvs, rs)
	w.Serves = append(w.Serves, sr)
	w.mu.Unlock()
	w.Env.wg.Add(1)
	go func() {
		defer w.Env.wg.Done()
		started, err := rs.Serve(ctx)
		w.mu.Lock()
		sr.Returned, sr.Started, sr.Err, sr.RetVT = true, started, err, w.VT()
		w.mu.Unlock()
	}()
	return sr
}

// LibGoroutines counts the goroutines (other than the caller) that have a
// grpctunnel frame on their stack.
func LibGoroutines() (int, []string) {
	buf := make([]byte, 4<<20)
	n := runtime.Stack(buf, true)
	var out []string
	for i, b := range strings.Split(string(buf[:n]), "\n\n") {
		if i == 0 {
			continue
		}
		if strings.Contains(b, "github.com/jhump/grpctunnel.") {
			out = append(out, b)
		}
	}
	return len(out), out
}

// MarkIdle records the number of library goroutines of the idle topology (tunnels up, no RPC).
func (w *World) MarkIdle() {
	if w.Free {
		return
	}
	w.Wait()
	w.idleGoroutines, _ = LibGoroutines()
	w.idleMarked = true
}

// CheckIdle: with the same tunnels up and every RPC finished, no goroutine may be retained for a finished RPC.
func (w *World) CheckIdle(where string) {
	if w.Free || !w.idleMarked {
		return
	}
	w.Wait()
	n, stacks := LibGoroutines()
	w.Stat("idle_goroutine_checks", 1)
	if n > w.idleGoroutines {
		// name the extra ones by their innermost grpctunnel function
		sites := map[string]int{}
		for _, g := range stacks {
			sites[leakSite(g)]++
		}
		w.Violate("C14", "goroutine-retained-for-finished-rpc", "%s: %d library goroutines with every RPC finished, %d when the tunnels were idle before; by innermost library function: %v", where, n, w.idleGoroutines, sites)
	}
}

// ServeState returns a copy of a Serve result.
func (w *World) ServeState(i int) ServeResult {
	w.mu.Lock()
	defer w.mu.Unlock()
	return *w.Serves[i]
}

// ---- yield plans ----

// YieldPlan decides what happens at named yield points.
type YieldPlan struct {
	mu    sync.Mutex
	Hits  map[string]int
	Parks map[string][]time.Duration // per point: park duration for the n-th hit (0 = none)
	Fn    func(point string, n int)
	// ParkIf, if set, restricts Parks to the calls for which it returns true
	// (only those calls consume park slots).
	ParkIf   func(point string) bool
	parkHits map[string]int
}

// callerHas reports whether the calling goroutine's stack contains a function
// whose name contains one of the given substrings.
func callerHas(subs ...string) bool {
	var pcs [40]uintptr
	fr := runtime.CallersFrames(pcs[:runtime.Callers(2, pcs[:])])
	for {
		f, more := fr.Next()
		for _, s := range subs {
			if strings.Contains(f.Function, s) {
				return true
			}
		}
		if !more {
			return false
		}
	}
}

// clientSideCaller: the calling goroutine is inside the tunnel client (channel
// or client stream). A client-side carrier send holds at most the stream
// creation lock or the stream's own write lock, which only the application's
// own goroutines take.
func clientSideCaller(string) bool {
	return callerHas("grpctunnel.(*tunnelChannel)", "grpctunnel.(*tunnelClientStream)")
}

// EnableJitter makes every yield point of the scenario hand the processor to
// other goroutines a pseudo-random number of times (0..7). It never sleeps, so
// it is safe at points where the library holds a mutex; it composes with
// whatever plan a family installs.
func (w *World) EnableJitter(seed int64) {
	w.jitter.Store(seed | 1)
	if w.yield == nil {
		w.installYield(&YieldPlan{})
	}
	w.Stat("scenarios_with_scheduling_jitter", 1)
}

func (w *World) installYield(p *YieldPlan) {
	w.yield = p
	if p.Hits == nil {
		p.Hits = map[string]int{}
	}
	grpctunnel.VerifSetYield(func(point string) {
		if w.jitter.Load() != 0 {
			x := w.jitter.Add(0x1e3779b97f4a7c15)
			for i := int64(0); i < (x>>57)&7; i++ {
				runtime.Gosched()
			}
		}
		eligible := p.ParkIf == nil || len(p.Parks[point]) == 0 || p.ParkIf(point)
		p.mu.Lock()
		n := p.Hits[point]
		p.Hits[point] = n + 1
		var d time.Duration
		if eligible {
			if p.parkHits == nil {
				p.parkHits = map[string]int{}
			}
			k := p.parkHits[point]
			p.parkHits[point] = k + 1
			if ds := p.Parks[point]; k < len(ds) {
				d = ds[k]
			}
		}
		fn := p.Fn
		p.mu.Unlock()
		if fn != nil {
			fn(point, n)
		}
		if d > 0 {
			time.Sleep(d)
		}
	})
}

// ---- end of scenario ----

var goroutineHdr = regexp.MustCompile(`^goroutine (\d+) \[([^\]]*)\]:`)

// BubbleGoroutines returns the stacks of goroutines in a synctest bubble other
// than the calling one.
func BubbleGoroutines() []string {
	buf := make([]byte, 1<<20)
	for {
		n := runtime.Stack(buf, true)
		if n < len(buf) {
			buf = buf[:n]
			break
		}
		buf = make([]byte, 2*len(buf))
	}
	var out []string
	blocks := strings.Split(string(buf), "\n\n")
	for i, b := range blocks {
		if i == 0 {
			continue // the caller
		}
		first := b
		if j := strings.IndexByte(b, '\n'); j >= 0 {
			first = b[:j]
		}
		m := goroutineHdr.FindStringSubmatch(first)
		if m == nil || !strings.Contains(m[2], "synctest bubble") {
			continue
		}
		if strings.Contains(b, "testing/synctest.testingSynctestTest") || strings.Contains(b, "internal/synctest.Run") {
			continue // the bubble's own infrastructure
		}
		out = append(out, b)
	}
	return out
}

// Finish tears the world down, drains to quiescence and runs the
// end-of-scenario monitors. It must be the last call of a scenario.
func (w *World) Finish() {
	w.FlushSymptoms()
	// 1. quiescent table check while tunnels are still up is done by scenarios
	// via CheckTables. Here: tear down.
	w.Wait()
	w.Wire.AtEnd()
	for _, rs := range w.RevSrvs {
		done := make(chan struct{})
		go func() { rs.Stop(); close(done) }()
		w.Advance(time.Second)
		select {
		case <-done:
		default:
			w.Note("ReverseTunnelServer.Stop still blocked after 1s of virtual time")
		}
	}
	if tc, ok := w.Ch.(grpctunnel.TunnelChannel); ok && tc != nil {
		tc.Close()
	}
	if w.Outer != nil {
		w.Outer.Close()
	}
	w.RootCancel()
	for _, l := range w.Conn.Links() {
		l.ReleaseAll()
	}
	w.Advance(time.Second)
	w.Env.Shutdown()
	w.Advance(time.Hour)
	grpctunnel.VerifSetYield(nil)

	// open operations at the very end
	for _, r := range w.Env.Log.OpenOps() {
		if r.K == "ctxwait" {
			w.Violate("C04", "handler-ctx-not-cancelled-at-teardown", "handler %s context never cancelled although every tunnel was torn down", r.RPC)
			continue
		}
		w.Violate("C04", "op-open-after-teardown:"+r.Side+":"+r.K, "operation %s %s[%d] of rpc %s still blocked an hour after every tunnel was torn down", r.Side, r.K, r.Idx, r.RPC)
	}
	// tunnel servers still registered
	if n := len(grpctunnel.VerifServers()); n != 0 {
		w.Violate("C14", "tunnel-server-serve-loop-left", "%d tunnel server serve loop(s) still running after tear-down", n)
	}
	if w.Handler != nil {
		all, perKey := grpctunnel.VerifReverseRegistry(w.Handler)
		if all != 0 {
			w.Violate("C14", "reverse-registry-not-empty", "global reverse registry holds %d channel(s) after all tunnels ended", all)
		}
		for k, n := range perKey {
			if n != 0 {
				w.Violate("C14", "reverse-key-registry-not-empty", "per-key reverse registry for key %v holds %d channel(s) after all tunnels ended", k, n)
			}
		}
		if got := len(w.Handler.AllReverseTunnels()); got != 0 {
			w.Violate("C12", "all-reverse-tunnels-not-empty-at-end", "AllReverseTunnels() returns %d after all tunnels ended", got)
		}
	}
	// goroutines
	if w.GRPC != nil {
		w.GRPC.stop()
	}
	var leaks []string
	if !w.Free {
		leaks = BubbleGoroutines()
	} else {
		leaks = w.freeLeaks()
	}
	lib, other := 0, 0
	for _, g := range leaks {
		if strings.Contains(g, "github.com/jhump/grpctunnel.") || strings.Contains(g, "github.com/jhump/grpctunnel/") {
			lib++
			w.Violate("C14", "goroutine-left:"+leakSite(g), "goroutine left behind after tear-down + 1h:\n%s", trimStack(g))
		} else {
			other++
			w.Note("harness goroutine left: %s", trimStack(g))
		}
	}
	w.Stat("leak_check_done", 1)
	w.Stat("goroutines_left_lib", lib)
	w.Stat("goroutines_left_harness", other)
	// canaries
	_, canaries, seq := w.Tap.Snapshot()
	for _, c := range canaries {
		w.Violate("C15", "carrier-canary", "%s", c)
	}
	w.Stat("tap_events", int(seq))
	if w.yield != nil {
		w.yield.mu.Lock()
		for k, v := range w.yield.Hits {
			w.Stats["yield:"+k] += v
		}
		w.yield.mu.Unlock()
	}
}

func trimStack(g string) string {
	lines := strings.Split(g, "\n")
	if len(lines) > 14 {
		lines = lines[:14]
	}
	return strings.Join(lines, "\n")
}

var funcLine = regexp.MustCompile(`github\.com/jhump/grpctunnel\.([^\s(]*(?:\([^)]*\))?[^\s(]*)`)

// leakSite names the innermost grpctunnel function in a goroutine stack.
func leakSite(g string) string {
	m := funcLine.FindStringSubmatch(g)
	if m == nil {
		return "unknown"
	}
	return m[1]
}

// CheckTables compares the stream tables against the set of in-flight RPCs at
// a quiescent point. inflightClient / inflightServer are upper bounds (the
// table must be a subset); if exact is true the sizes must match.
func (w *World) CheckTables(tc grpctunnel.TunnelChannel, inflightClient, inflightServer int, exact bool, where string) {
	if tc != nil {
		ids, finished, ok := grpctunnel.VerifClientStreamIDs(tc)
		if ok && !finished {
			w.Stat("table_checks", 1)
			if len(ids) > inflightClient || (exact && len(ids) != inflightClient) {
				w.Violate("C14", "client-table-mismatch", "%s: client stream table holds %v but %d RPC(s) are in flight", where, ids, inflightClient)
			}
		}
	}
	total := 0
	var all []int64
	if strings.HasPrefix(w.Cfg.Dir, "nested") {
		// the inner tunnel is itself one stream of the outer tunnel
		inflightServer++
	}
	for _, s := range grpctunnel.VerifServers() {
		total += len(s.StreamIDs)
		all = append(all, s.StreamIDs...)
	}
	sort.Slice(all, func(i, j int) bool { return all[i] < all[j] })
	w.Stat("table_checks", 1)
	if total > inflightServer || (exact && total != inflightServer) {
		w.Violate("C14", "server-table-mismatch", "%s: server stream tables hold %v but %d handler(s) are running", where, all, inflightServer)
	}
}

// freeLeaks (free-running mode): goroutines with a grpctunnel frame that are
// still present two seconds after tear-down.
func (w *World) freeLeaks() []string {
	var out []string
	for try := 0; try < 40; try++ {
		out = out[:0]
		buf := make([]byte, 4<<20)
		n := runtime.Stack(buf, true)
		for _, b := range strings.Split(string(buf[:n]), "\n\n") {
			if strings.Contains(b, "github.com/jhump/grpctunnel.") && !strings.Contains(b, "verifharness.(*World).freeLeaks") {
				out = append(out, b)
			}
		}
		if len(out) == 0 {
			return nil
		}
		time.Sleep(50 * time.Millisecond)
	}
	return out
}

// RunFree runs f without a bubble (real time, real parallelism).
func RunFree(t *testing.T, cfg WorldCfg, f func(w *World)) *World {
	w := NewWorld(t, cfg)
	w.Free = true
	f(w)
	return w
}

// RunScenario runs f inside a fresh bubble with a fresh world and returns the
// world for result extraction. The bubble is left only after Finish().
func RunScenario(t *testing.T, cfg WorldCfg, f func(w *World)) *World {
	var w *World
	synctest.Test(t, func(t *testing.T) {
		w = NewWorld(t, cfg)
		f(w)
	})
	return w
}
