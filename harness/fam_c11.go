package h

// C11: revision negotiation and revision-zero interoperability.

import (
	"context"
	"fmt"
	"math/rand"
	"time"

	"google.golang.org/grpc/codes"
	"google.golang.org/grpc/metadata"

	"github.com/jhump/grpctunnel"
	"github.com/jhump/grpctunnel/tunnelpb"
)

var settingsVariants = []string{
	"rev01", "rev10", "rev1-only", "rev0-only", "empty", "unknown-only", "unknown-and-0", "unknown-and-1", "dups", "many",
	"win1", "win100", "win16384", "winmax", "win0-rev0",
	"bad-id-0", "bad-id-5", "bad-id-neg2", "first-frame-headers", "first-frame-window", "first-frame-close", "first-frame-empty", "end-immediately", "end-with-error", "silent", "settings-twice",
}

func init() {
	families["legacyclient"] = famLegacyClient
	families["legacyserver"] = famLegacyServer
	families["settings"] = famSettings
	listers["C11"] = func(tier string, seed int64) []Case {
		var out []Case
		rng := rand.New(rand.NewSource(seed*709 + 11))
		reps := 1
		if tier == "thorough" {
			reps = 150
		}
		for r := 0; r < reps; r++ {
			// library <-> library: the 2x2 enabled/disabled table plus header-stripped legacy, every direction
			for _, cfg := range cfgAxes(allDirs, []string{"on", "cnofc", "snofc", "bothnofc", "legacy"}, []int{0}, []time.Duration{0}) {
				out = append(out, Case{Family: "streams", Seed: rng.Int63(), Cfg: cfg, P: map[string]int{"maxsize": 200000, "maxrpcs": 4}})
			}
			// real server (enabled / disabled) <-> scripted revision-zero client
			for _, dir := range []string{"forward", "reverse"} {
				for _, nofc := range []bool{false, true} {
					out = append(out, Case{Family: "legacyclient", Seed: rng.Int63(), Cfg: WorldCfg{Dir: dir, ServerNoFC: nofc}})
				}
			}
			// real client (enabled / disabled) <-> scripted revision-zero server
			for _, dir := range []string{"forward", "reverse"} {
				for _, nofc := range []bool{false, true} {
					out = append(out, Case{Family: "legacyserver", Seed: rng.Int63(), Cfg: WorldCfg{Dir: dir, ClientNoFC: nofc}})
				}
			}
			// every settings message
			for _, v := range settingsVariants {
				for _, dir := range []string{"forward", "reverse"} {
					for _, nofc := range []bool{false, true} {
						out = append(out, Case{Family: "settings", Seed: rng.Int63(), Cfg: WorldCfg{Dir: dir, ClientNoFC: nofc}, S: map[string]string{"variant": v}})
					}
				}
			}
		}
		return out
	}
}

// famLegacyClient: a raw client that does not advertise negotiation and speaks
// revision zero only; the real server must emit only revision-zero frames and
// RPCs of all four shapes must work (including messages larger than a window).
func famLegacyClient(w *World, c *Case, rng *rand.Rand) {
	w.Wire.JudgeClient = false
	w.Window.JudgeClient = false
	w.Wire.ExpectSettings = 0
	w.Wire.ExpectRev = -1
	rc, err := w.OpenRawClient(false, w.Cfg.ServerNoFC)
	if err != nil {
		w.Violate("C11", "legacy-client-open-failed", "revision-zero client could not open a tunnel: %v", err)
		w.Finish()
		return
	}
	rc.AutoCredit = false
	w.Wait()
	type st struct {
		tag, method string
		sizes       []int
		resp        []int
	}
	streams := []st{
		{"lu", "Unary", []int{70000}, []int{90000}},
		{"lc", "ClientStream", []int{10, 100000, 16384}, []int{5}},
		{"ls", "ServerStream", []int{10}, []int{66000, 1, 140000}},
		{"lb", "Bidi", []int{30000, 70000}, []int{70000, 30000}},
	}
	for i, s := range streams {
		w.Env.registerSpec(&RPCSpec{ID: s.tag, Method: s.method, Handler: handlerScript(s.method, len(s.sizes), s.resp)})
		id := int64(i)
		_ = rc.Send(fNew(id, "verif.Svc/"+s.method, s.tag, 0, 0))
		for k, sz := range s.sizes {
			for _, f := range msgFramesC2S(id, wrapBytes(GenPayload(s.tag, dirReq, k, sz)), 16384) {
				_ = rc.Send(f)
			}
		}
		_ = rc.Send(fHalf(id))
		if rng.Intn(2) == 0 {
			w.Wait()
		}
	}
	w.Advance(time.Second)
	views, recvDone, recvErr := rc.Snapshot()
	w.Stat("legacy_client_runs", 1)
	if recvDone {
		w.Violate("C11", "legacy-client-tunnel-ended", "tunnel with a revision-zero client ended: %v", recvErr)
	}
	rc.mu.Lock()
	if rc.SettingsN > 0 {
		w.Violate("C11", "settings-to-legacy-peer", "server sent a settings frame to a client that did not advertise negotiation")
	}
	rc.mu.Unlock()
	for i, s := range streams {
		v := views[int64(i)]
		w.Stat("legacy_rpcs_checked", 1)
		if v.WinUpdates > 0 {
			w.Violate("C11", "window-update-to-legacy-peer", "server sent %d window_update frame(s) on a revision-zero stream (%s)", v.WinUpdates, s.method)
		}
		if v.Closes != 1 || v.Close.GetStatus().GetCode() != 0 {
			code := int32(-1)
			if v.Close != nil {
				code = v.Close.GetStatus().GetCode()
			}
			w.Violate("C11", "legacy-rpc-failed", "%s RPC from a revision-zero client did not complete (closes=%d code=%v)", s.method, v.Closes, codes.Code(code))
			continue
		}
		if len(v.Msgs) != len(s.resp) {
			w.Violate("C11", "legacy-rpc-failed", "%s RPC from a revision-zero client got %d responses, want %d", s.method, len(v.Msgs), len(s.resp))
		}
		for k, m := range v.Msgs {
			if k < len(s.resp) && sum64(m) != sum64(wrapBytes(GenPayload(s.tag, dirResp, k, s.resp[k]))) {
				w.Violate("C01", "wrong-bytes:response", "%s response %d corrupted towards a revision-zero client", s.method, k)
			}
		}
	}
	var ts []tagSizes
	for _, s := range streams {
		ts = append(ts, tagSizes{s.tag, s.sizes})
	}
	w.CheckDelivery2Raw(ts)
	rc.Hangup()
	w.Advance(time.Second)
	w.Finish()
}

type tagSizes struct {
	tag   string
	sizes []int
}

// CheckDelivery2Raw: handlers fed by a raw client must have received exactly the generated payloads.
func (w *World) CheckDelivery2Raw(ts []tagSizes) {
	for _, t := range ts {
		got := 0
		for _, r := range w.Env.Log.Records() {
			if r.RPC == t.tag && r.Side == "handler" && r.K == "recv" && r.RetSeq != 0 && r.Err == "" {
				if got >= len(t.sizes) || r.GotSize != t.sizes[got] || !r.GotOK {
					w.Violate("C01", "wrong-bytes:request", "handler %s received message #%d of %d bytes (ok=%v), the raw client sent %v", t.tag, got, r.GotSize, r.GotOK, t.sizes)
				}
				got++
			}
		}
		if got != len(t.sizes) {
			w.Violate("C01", "lost-message:request", "handler %s received %d of %d messages from the raw client", t.tag, got, len(t.sizes))
		}
	}
}

func fourShapeSpecs(prefix string) []*RPCSpec {
	return []*RPCSpec{
		{ID: prefix + "u", Method: "Unary", Client: []Op{{K: "invoke", N: 70000}}},
		{ID: prefix + "c", Method: "ClientStream", Client: []Op{{K: "open"}, {K: "send", N: 10}, {K: "send", N: 100000}, {K: "close"}, {K: "recvall"}}},
		{ID: prefix + "s", Method: "ServerStream", Client: []Op{{K: "open"}, {K: "send", N: 10}, {K: "close"}, {K: "recvall"}}},
		{ID: prefix + "b", Method: "Bidi", Client: []Op{{K: "open"}, {K: "send", N: 30000}, {K: "send", N: 70000}, {K: "close"}, {K: "recvall"}}},
	}
}

func fourShapePrograms(prefix string, respSizes map[string][]int) map[string]*RawProgram {
	progs := map[string]*RawProgram{}
	for _, sfx := range []string{"u", "c", "s", "b"} {
		tag := prefix + sfx
		var fr []*tunnelpb.ServerToClient
		fr = append(fr, sHdr(0, metadata.MD{"h": {"1"}}))
		for k, sz := range respSizes[sfx] {
			fr = append(fr, msgFramesS2C(0, wrapBytes(GenPayload(tag, dirResp, k, sz)), 16384)...)
		}
		fr = append(fr, sClose(0, 0, "", metadata.MD{"t": {"1"}}))
		progs[tag] = &RawProgram{OnHalf: fr}
	}
	return progs
}

var fourShapeResp = map[string][]int{"u": {90000}, "c": {5}, "s": {66000, 1, 140000}, "b": {70000, 30000}}

// judgeFourShapes checks that the four real-client RPCs completed against a raw server.
func (w *World) judgeFourShapes(prefix, what string, rs *RawServer, wantRev int32, settingsWindow int64) {
	views := buildViews(w.Env)
	snap := rs.Snapshot()
	for _, sfx := range []string{"u", "c", "s", "b"} {
		tag := prefix + sfx
		v := views[tag]
		w.Stat("interop_rpcs_checked", 1)
		if v == nil {
			w.Violate("C11", "interop-rpc-failed", "%s: rpc %s never ran", what, tag)
			continue
		}
		for _, r := range v.all {
			if r.RetSeq == 0 {
				w.Violate("C11", "interop-rpc-hangs", "%s: rpc %s op %s still blocked", what, tag, r.K)
			}
		}
		t := clientTerminal(v)
		ok := t != nil && ((t.K == "invoke" && t.Err == "") || (t.K == "recv" && t.EOF))
		if !ok {
			es := "<none>"
			if t != nil {
				es = t.Err
			}
			w.Violate("C11", "interop-rpc-failed", "%s: rpc %s ended with %s", what, tag, es)
			continue
		}
		got := 0
		for _, r := range v.cliRecvs {
			if r.RetSeq != 0 && r.Err == "" {
				if !r.GotOK {
					w.Violate("C01", "wrong-bytes:response", "%s: rpc %s response corrupted", what, tag)
				}
				got++
			}
		}
		if v.invoke != nil {
			if !v.invoke.GotOK {
				w.Violate("C01", "wrong-bytes:response", "%s: rpc %s response corrupted", what, tag)
			}
			got++
		}
		if got != len(fourShapeResp[sfx]) {
			w.Violate("C11", "interop-rpc-failed", "%s: rpc %s got %d responses, want %d", what, tag, got, len(fourShapeResp[sfx]))
		}
		st, have := snap[tag]
		if !have {
			continue
		}
		if wantRev >= 0 && int32(st.New.ProtocolRevision) != wantRev {
			w.Violate("C11", "wrong-revision-used", "%s: new_stream of %s uses revision %d, want %d", what, tag, st.New.ProtocolRevision, wantRev)
		}
		if st.New.ProtocolRevision == 0 && st.WinUpdates > 0 {
			w.Violate("C11", "window-update-to-legacy-peer", "%s: client sent %d window_update frame(s) on revision-zero stream %s", what, st.WinUpdates, tag)
		}
	}
}

// famLegacyServer: a raw revision-zero server (no negotiate header, no settings).
func famLegacyServer(w *World, c *Case, rng *rand.Rand) {
	w.Wire.JudgeServer = false
	w.Window.JudgeServer = false
	w.Wire.ExpectSettings = -1
	w.Wire.ExpectRev = 0
	w.Wire.ClientAwaitsSettings = false
	rs, ch, err := w.OpenRawServer(RawServerOpts{Advertise: false, ClientNoFC: w.Cfg.ClientNoFC}, fourShapePrograms("z", fourShapeResp))
	if err != nil || ch == nil {
		w.Violate("C11", "legacy-server-open-failed", "real client could not open a tunnel to a revision-zero server: %v", err)
		w.Finish()
		return
	}
	rs.AutoCredit = false
	for _, s := range fourShapeSpecs("z") {
		w.Env.StartRPC(context.Background(), ch, s)
		if rng.Intn(2) == 0 {
			w.Wait()
		}
	}
	w.Advance(time.Second)
	w.Stat("legacy_server_runs", 1)
	w.judgeFourShapes("z", "revision-zero server", rs, 0, 0)
	select {
	case <-ch.Done():
		w.Violate("C11", "legacy-server-tunnel-ended", "tunnel to a revision-zero server ended: %v", ch.Err())
	default:
	}
	rs.End(nil)
	w.Advance(time.Second)
	w.Finish()
}

// famSettings: raw servers that advertise negotiation and send every kind of settings message.
func famSettings(w *World, c *Case, rng *rand.Rand) {
	variant := c.s("variant", "rev01")
	w.SigExtra = variant
	w.Wire.JudgeServer = false
	w.Window.JudgeServer = false
	w.Wire.ExpectSettings = -1
	w.Wire.ExpectRev = -1
	clientRevs := []int32{0, 1}
	if w.Cfg.ClientNoFC {
		clientRevs = []int32{0}
	}
	const R0, R1 = tunnelpb.ProtocolRevision_REVISION_ZERO, tunnelpb.ProtocolRevision_REVISION_ONE
	var pre []*tunnelpb.ServerToClient
	o := RawServerOpts{Advertise: true, ClientNoFC: w.Cfg.ClientNoFC}
	var list []int32
	window := uint32(65536)
	expect := "ok" // ok, error, blocked
	switch variant {
	case "rev01":
		list = []int32{0, 1}
	case "rev10":
		list = []int32{1, 0}
	case "rev1-only":
		list = []int32{1}
	case "rev0-only":
		list = []int32{0}
	case "empty":
		list = []int32{}
	case "unknown-only":
		list = []int32{7}
	case "unknown-and-0":
		list = []int32{9, 0, 33}
	case "unknown-and-1":
		list = []int32{9, 1}
	case "dups":
		list = []int32{1, 1, 0, 0, 1}
	case "many":
		list = []int32{5, 4, 3, 2, 1, 0}
	case "win1":
		list, window = []int32{0, 1}, 1
	case "win100":
		list, window = []int32{0, 1}, 100
	case "win16384":
		list, window = []int32{0, 1}, 16384
	case "winmax":
		list, window = []int32{0, 1}, 0xffffffff
	case "win0-rev0":
		list, window = []int32{0}, 0
	}
	mkSettings := func(id int64) *tunnelpb.ServerToClient {
		revs := make([]tunnelpb.ProtocolRevision, len(list))
		for i, r := range list {
			revs[i] = tunnelpb.ProtocolRevision(r)
		}
		return sSettings(id, window, revs...)
	}
	switch variant {
	case "bad-id-0":
		list = []int32{0, 1}
		pre, expect = []*tunnelpb.ServerToClient{mkSettings(0)}, "error"
	case "bad-id-5":
		list = []int32{0, 1}
		pre, expect = []*tunnelpb.ServerToClient{mkSettings(5)}, "error"
	case "bad-id-neg2":
		list = []int32{0, 1}
		pre, expect = []*tunnelpb.ServerToClient{mkSettings(-2)}, "error"
	case "first-frame-headers":
		pre, expect = []*tunnelpb.ServerToClient{sHdr(-1, metadata.MD{"x": {"y"}})}, "error"
	case "first-frame-window":
		pre, expect = []*tunnelpb.ServerToClient{sWin(-1, 10)}, "error"
	case "first-frame-close":
		pre, expect = []*tunnelpb.ServerToClient{sClose(-1, 0, "", nil)}, "error"
	case "first-frame-empty":
		pre, expect = []*tunnelpb.ServerToClient{{StreamId: -1}}, "error"
	case "end-immediately":
		o.EndImmediately, expect = true, "error"
	case "end-with-error":
		expect = "error"
	case "silent":
		expect = "blocked"
	case "settings-twice":
		list = []int32{0, 1}
		pre = []*tunnelpb.ServerToClient{mkSettings(-1), mkSettings(-1)}
		expect = "any"
	default:
		pre = []*tunnelpb.ServerToClient{mkSettings(-1)}
		// highest common revision
		best := int32(-1)
		for _, r := range list {
			for _, cr := range clientRevs {
				if r == cr && r > best {
					best = r
				}
			}
		}
		if len(list) == 0 {
			best = 0 // "if that is observed, the client should assume the server only supports revision zero"
		}
		if best < 0 {
			expect = "error"
		} else {
			expect = fmt.Sprintf("rev%d", best)
		}
	}
	o.Preamble = pre
	_ = R0
	_ = R1
	resp := map[string][]int{"u": {300}, "c": {5}, "s": {200, 1, 300}, "b": {100, 50}}
	saved := fourShapeResp
	fourShapeResp = resp
	defer func() { fourShapeResp = saved }()
	rs, ch, err := w.OpenRawServer(o, fourShapePrograms("q", resp))
	if variant == "end-with-error" && rs != nil {
		// the stream was left open by OpenRawServer: end it with an error status now
	}
	w.Stat("settings_runs", 1)
	switch {
	case expect == "blocked":
		w.Stat("settings_expect_blocked", 1)
		if w.Cfg.Dir == "forward" {
			if err != errStartBlocked {
				w.Violate("C11", "proceeded-without-settings", "server advertised negotiation but sent no settings: Start returned (%v) instead of waiting", err)
			}
			// bounded by the caller's context
			w.RootCancel()
			w.Advance(time.Second)
			select {
			case r := <-rs.StartCh:
				if r.Err == nil && r.Ch != nil {
					select {
					case <-r.Ch.Done():
					default:
						w.Violate("C11", "start-returned-live-channel-after-cancel", "Start returned a live channel after its context was cancelled while waiting for settings")
					}
				}
			default:
				w.Violate("C11", "start-hangs-after-context-cancel", "Start is still blocked after its context was cancelled while waiting for settings")
			}
		} else {
			// reverse: the handler's channel must not become available for RPCs
			if w.Handler != nil && w.Handler.AsChannel().Ready() {
				w.Note("reverse channel registered before settings arrived")
			}
			w.RootCancel()
			w.Advance(time.Second)
		}
	case expect == "error":
		w.Stat("settings_expect_error", 1)
		if variant == "end-with-error" {
			// Start is blocked waiting; end the stream with an error now
			rs.End(fmt.Errorf("raw server gives up"))
			w.Advance(time.Second)
			if w.Cfg.Dir == "forward" {
				select {
				case r := <-rs.StartCh:
					ch, err = r.Ch, r.Err
				default:
					w.Violate("C11", "start-hangs-after-stream-error", "Start is still blocked after the stream ended with an error before settings")
				}
			}
		}
		if w.Cfg.Dir == "forward" {
			if err == errStartBlocked {
				w.Violate("C11", "malformed-settings-hang", "settings variant %s: Start is still blocked after 1s of virtual time", variant)
			} else if err == nil && ch != nil {
				select {
				case <-ch.Done():
					if ch.Err() == nil {
						w.Violate("C11", "malformed-settings-nil-error", "settings variant %s: the channel is done but Err() is nil", variant)
					}
				default:
					w.Violate("C11", "malformed-settings-silently-accepted", "settings variant %s (client revisions %v): Start returned a live channel", variant, clientRevs)
				}
				// the peer must be able to tell: the carrier stream is half-closed or ended
				// (not when the raw server ended the stream itself)
				if variant != "end-with-error" && variant != "end-immediately" {
					w.Advance(time.Second)
					rs.mu.Lock()
					peerSaw := rs.RecvDone
					rs.mu.Unlock()
					if !peerSaw {
						w.Violate("C04", "aborted-tunnel-not-visible-to-peer", "settings variant %s: the client gave the tunnel up (%v) but neither half-closed nor ended the carrier stream", variant, ch.Err())
						w.Violate("C11", "aborted-tunnel-not-visible-to-peer", "settings variant %s: the client gave the tunnel up (%v) but neither half-closed nor ended the carrier stream", variant, ch.Err())
					}
					w.Stat("settings_abort_visibility_checked", 1)
				}
				// further RPCs fail at once
				t0 := w.VT()
				s := &RPCSpec{ID: "after", Method: "Unary", Client: []Op{{K: "invoke", N: 1}}}
				w.Env.StartRPC(context.Background(), ch, s)
				w.Wait()
				if v := buildViews(w.Env)["after"]; v == nil || clientTerminal(v) == nil || clientTerminal(v).Err == "" || w.VT() != t0 {
					w.Violate("C11", "rpc-on-failed-tunnel-not-immediate-error", "settings variant %s: an RPC on the failed tunnel did not fail at once", variant)
				}
			}
		} else {
			// reverse: the handler must not keep a usable channel
			w.Advance(time.Second)
			if n := len(w.Handler.AllReverseTunnels()); n != 0 {
				w.Violate("C11", "malformed-settings-silently-accepted", "settings variant %s: the reverse tunnel stayed registered", variant)
			}
			if sErr, done := w.Conn.Links()[0].ServerReturn(); !done {
				w.Violate("C11", "malformed-settings-hang", "settings variant %s: OpenReverseTunnel handler has not returned", variant)
			} else if sErr == nil {
				w.Violate("C11", "malformed-settings-nil-error", "settings variant %s: OpenReverseTunnel handler returned nil", variant)
			}
		}
	case expect == "any":
		// only universal requirements (no hang, no panic)
	default:
		w.Stat("settings_expect_ok", 1)
		wantRev := int32(0)
		if expect == "rev1" {
			wantRev = 1
		}
		if err != nil || ch == nil {
			w.Violate("C11", "valid-settings-rejected:"+variant, "settings variant %s (list %v, client revisions %v): tunnel could not be opened: %v", variant, list, clientRevs, err)
			break
		}
		select {
		case <-ch.Done():
			w.Violate("C11", "valid-settings-rejected:"+variant, "settings variant %s (list %v, client revisions %v): the channel is done at once: %v", variant, list, clientRevs, ch.Err())
		default:
			for _, s := range fourShapeSpecs("q") {
				// small messages: the advertised window may be tiny
				for i := range s.Client {
					if s.Client[i].K == "send" || s.Client[i].K == "invoke" {
						s.Client[i].N = 40 + i
					}
				}
				w.Env.StartRPC(context.Background(), ch, s)
			}
			w.Advance(time.Minute)
			w.judgeFourShapes("q", "settings variant "+variant, rs, wantRev, int64(window))
		}
	}
	if rs != nil {
		rs.End(nil)
	}
	w.RootCancel()
	w.Advance(time.Second)
	_ = grpctunnel.WithDisableFlowControl
	w.Finish()
}
