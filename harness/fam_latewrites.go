package h

// latewrites: the RPC is finished by someone other than its handler (the caller cancels, or the
// caller's deadline passes) before the handler has written anything; the handler, which is still
// running, then uses its stream: SendHeader / SetHeader / SendMsg / SetTrailer in some order, and
// returns. Whatever those calls return, nothing may be emitted for the stream after its close
// frame and nothing twice (C13, judged by the wire monitor); the caller sees the cancellation
// (C07), and nothing is left behind (C14).

import (
	"context"
	"fmt"
	"math/rand"
	"time"

	"google.golang.org/grpc/codes"
	"google.golang.org/grpc/metadata"
)

func init() { families["latewrites"] = famLateWrites }

var lateWriteScripts = [][]Op{
	{{K: "sendhdr", MD: metadata.MD{"late": {"1"}}}},
	{{K: "sethdr", MD: metadata.MD{"late": {"1"}}}, {K: "sendhdr"}},
	{{K: "send", N: 10}},
	{{K: "sethdr", MD: metadata.MD{"late": {"1"}}}, {K: "send", N: 20000}, {K: "settrl", MD: metadata.MD{"t": {"1"}}}},
	{{K: "settrl", MD: metadata.MD{"t": {"1"}}}, {K: "sendhdr", MD: metadata.MD{"late": {"2"}}, Name: "ctx"}, {K: "sendhdr", MD: metadata.MD{"late": {"3"}}}},
	{{K: "sendhdr", MD: metadata.MD{"late": {"1"}}, Name: "ctx"}, {K: "send", N: 1}, {K: "send", N: 70000}},
}

func lateWritesCases(tier string, seed int64) []Case {
	var out []Case
	rng := rand.New(rand.NewSource(seed*613 + 77))
	reps := 1
	if tier == "thorough" {
		reps = 8
	}
	for r := 0; r < reps; r++ {
		for _, dir := range allDirs {
			for si := range lateWriteScripts {
				for _, shape := range []string{"Unary", "ServerStream", "Bidi"} {
					cfg := WorldCfg{Dir: dir}
					if rng.Intn(4) == 0 {
						cfg.ClientNoFC, cfg.ServerNoFC = true, true
					}
					out = append(out, Case{Family: "latewrites", Seed: rng.Int63(), Cfg: cfg, S: map[string]string{"shape": shape, "how": []string{"cancel", "deadline"}[rng.Intn(2)]}, P: map[string]int{"script": si, "ret": rng.Intn(3)}})
				}
			}
		}
	}
	return out
}

func famLateWrites(w *World, c *Case, rng *rand.Rand) {
	if err := w.Open(nil); err != nil {
		w.Violate("C11", "open-failed", "open: %v", err)
		w.Finish()
		return
	}
	shape, how, si := c.s("shape", "Bidi"), c.s("how", "cancel"), c.p("script", 0)
	w.SigExtra = fmt.Sprintf("%s/%s/%d/%d", shape, how, si, c.p("ret", 0))
	ret := Op{K: "ret"}
	switch c.p("ret", 0) {
	case 1:
		ret = Op{K: "ret", Code: codes.Aborted, Msg: "gave up"}
	case 2:
		ret = Op{K: "ret", Code: codes.Canceled, Msg: "context canceled"}
	}
	s := &RPCSpec{ID: "lw", Method: shape}
	s.Handler = append(append([]Op{{K: "ctxwait"}, {K: "sync", Name: "go"}}, lateWriteScripts[si]...), ret)
	switch shape {
	case "Unary":
		s.Client = []Op{{K: "invoke", N: 10}}
	case "ServerStream":
		s.Client = []Op{{K: "open"}, {K: "send", N: 10}, {K: "close"}, {K: "recvall"}}
	default:
		s.Client = []Op{{K: "open"}, {K: "send", N: 10}, {K: "recvall"}}
	}
	if how == "deadline" {
		s.Timeout = 50 * time.Millisecond
	}
	ctx, cancel := context.WithCancel(context.Background())
	defer cancel()
	w.Env.StartRPC(ctx, w.Ch, s)
	w.Advance(10 * time.Millisecond)
	if how == "cancel" {
		cancel()
	}
	w.Advance(100 * time.Millisecond) // the cancel frame has arrived: the server has finished the stream
	w.Stat("latewrites_runs", 1)
	for _, r := range w.Env.Log.OpenOps() {
		if r.RPC == "lw" && r.Side == "client" {
			w.Violate("C07", "caller-waits-for-peer:"+r.K, "late writes %s: caller op %s still blocked after the %s", w.SigExtra, r.K, how)
		}
		if r.RPC == "lw" && r.Side == "handler" && r.K == "ctxwait" {
			w.Violate("C07", "handler-ctx-not-cancelled", "late writes %s: the handler's context is still live after the %s notice was delivered", w.SigExtra, how)
		}
	}
	w.Env.Signal("go") // the handler now writes to the finished stream and returns
	w.Advance(time.Second)
	if v := buildViews(w.Env)["lw"]; v != nil {
		if t := clientTerminal(v); t == nil {
			w.Violate("C07", "no-terminal-result", "late writes %s: no terminal result at the caller", w.SigExtra)
		} else if want := map[string]codes.Code{"cancel": codes.Canceled, "deadline": codes.DeadlineExceeded}[how]; t.Code != want {
			w.Violate("C07", "wrong-code-for-cause", "late writes %s: the caller got %v (%q), want %v", w.SigExtra, t.Code, t.Err, want)
		}
	}
	for _, r := range w.Env.Log.OpenOps() {
		w.Violate("C14", "op-stuck-after-cancel", "late writes %s: %s op %s of rpc %s still blocked", w.SigExtra, r.Side, r.K, r.RPC)
	}
	// a bystander afterwards: the tunnel still works
	by := &RPCSpec{ID: "after", Method: "Unary", Client: []Op{{K: "invoke", N: 10}}, Handler: []Op{{K: "recv"}, {K: "send", N: 5}, {K: "ret"}}}
	w.Env.StartRPC(context.Background(), w.Ch, by)
	w.Advance(100 * time.Millisecond)
	if v := buildViews(w.Env)["after"]; v == nil || v.invoke == nil || v.invoke.RetSeq == 0 || v.invoke.Err != "" {
		w.Violate("C03", "bystander-failed", "late writes %s: an RPC after the cancelled one did not complete normally", w.SigExtra)
	}
	w.CheckTables(w.TCh, 0, 0, true, "after late writes")
	w.Finish()
}
