package h

// Cases, results, the family registry and shared generators.

import (
	"encoding/json"
	"fmt"
	"hash/fnv"
	"math/rand"
	"sort"
	"strings"
	"time"

	"google.golang.org/grpc/codes"
	"google.golang.org/grpc/metadata"
)

// Case is one scenario to run: a family, a configuration and a seed. It is
// its own replay file.
type Case struct {
	Check  string            `json:"check"`
	Family string            `json:"family"`
	Idx    int               `json:"idx"`
	Seed   int64             `json:"seed"`
	Cfg    WorldCfg          `json:"cfg"`
	P      map[string]int    `json:"p,omitempty"`
	S      map[string]string `json:"s,omitempty"`
	L      []string          `json:"l,omitempty"`
}

// Result is what a worker reports for one case.
type Result struct {
	Case       Case           `json:"case"`
	Status     string         `json:"status"` // done, hang, panic
	Violations []Violation    `json:"violations,omitempty"`
	Stats      map[string]int `json:"stats,omitempty"`
	Sig        string         `json:"sig,omitempty"`
	Notes      []string       `json:"notes,omitempty"`
	Sample     any            `json:"sample,omitempty"`
	WallMS     int64          `json:"wall_ms"`
	Dump       string         `json:"dump,omitempty"`
	Dump2      string         `json:"dump2,omitempty"`
}

// Family runs one scenario in a world.
type Family func(w *World, c *Case, rng *rand.Rand)

var families = map[string]Family{}

// lister produces the fixed case list of a check for (tier, seed).
type lister func(tier string, seed int64) []Case

var listers = map[string]lister{}

func (c *Case) p(name string, def int) int {
	if v, ok := c.P[name]; ok {
		return v
	}
	return def
}

func (c *Case) s(name, def string) string {
	if v, ok := c.S[name]; ok {
		return v
	}
	return def
}

func caseJSON(c Case) string {
	b, _ := json.Marshal(c)
	return string(b)
}

// ---- generators ----

var boundarySizes = []int{0, 1, 2, 100, 16379, 16380, 16383, 16384, 16385, 16389, 2*16384 - 1, 2 * 16384, 2*16384 + 1, 49152, 65531, 65535, 65536, 65537, 65541, 65536 + 16384, 2*65536 - 1, 2 * 65536, 2*65536 + 1, 3*65536 + 7}

var bigSizes = []int{1<<20 - 1, 1 << 20, 1<<20 + 1, 3<<20 + 5}

// genSize draws a message size from the boundary-heavy distribution.
// The BytesValue wrapper adds 2..5 bytes to the marshalled size, so both the
// payload and the marshalled size are steered to the chunk/window boundaries.
func genSize(rng *rand.Rand, maxSize int) int {
	for {
		var n int
		switch r := rng.Intn(100); {
		case r < 45:
			n = boundarySizes[rng.Intn(len(boundarySizes))]
		case r < 55:
			// marshalled size exactly on a boundary: payload = boundary - overhead
			b := []int{16384, 32768, 65536, 131072}[rng.Intn(4)]
			n = b - []int{3, 4, 5}[rng.Intn(3)] + rng.Intn(3) - 1
		case r < 75:
			n = rng.Intn(300)
		case r < 92:
			n = int(float64(1) * float64(int(1)<<uint(rng.Intn(18))) * (1 + rng.Float64()))
		case r < 97:
			n = 65536*(1+rng.Intn(4)) + rng.Intn(3) - 1
		default:
			n = bigSizes[rng.Intn(len(bigSizes))]
		}
		if n >= 0 && n <= maxSize {
			return n
		}
	}
}

var allCodes = []codes.Code{codes.OK, codes.Canceled, codes.Unknown, codes.InvalidArgument, codes.DeadlineExceeded, codes.NotFound, codes.AlreadyExists, codes.PermissionDenied, codes.ResourceExhausted, codes.FailedPrecondition, codes.Aborted, codes.OutOfRange, codes.Unimplemented, codes.Internal, codes.Unavailable, codes.DataLoss, codes.Unauthenticated}

var utf8Samples = []string{"", "x", "plain message", "ünïcödé ✓ 日本語", strings.Repeat("long-", 200), "with\nnewline\tand tab", "percent %d %s", "\u0000nul", "emoji 🙂🙃"}

// legal values for non -bin metadata keys are printable ASCII only (real grpc-go rejects anything else)
var asciiSamples = []string{"", "x", "plain message", "with spaces  and ~!@#$%^&*()_+{}|:<>?", strings.Repeat("long-", 200), "percent %d %s %%", "a=b;c=d, e", "UPPER lower 0123456789"}

func genMD(rng *rand.Rand, prefix string) metadata.MD {
	switch rng.Intn(6) {
	case 0:
		return nil
	case 1:
		return metadata.MD{}
	}
	md := metadata.MD{}
	n := 1 + rng.Intn(3)
	for i := 0; i < n; i++ {
		k := fmt.Sprintf("%s-k%d", prefix, rng.Intn(4))
		nv := 1 + rng.Intn(3)
		for j := 0; j < nv; j++ {
			md.Append(k, asciiSamples[rng.Intn(len(asciiSamples))]+fmt.Sprint(rng.Intn(1000)))
		}
	}
	if rng.Intn(2) == 0 {
		// binary key with arbitrary bytes that are valid UTF-8
		b := make([]rune, 1+rng.Intn(8))
		for i := range b {
			b[i] = rune(rng.Intn(0x7ff))
		}
		md.Append(prefix+"-data-bin", string(b))
		if rng.Intn(2) == 0 {
			md.Append(prefix+"-data-bin", "second")
		}
	}
	return md
}

// sigOf hashes a list of strings into a short signature.
func sigOf(parts ...string) string {
	h := fnv.New64a()
	for _, p := range parts {
		h.Write([]byte(p))
		h.Write([]byte{0})
	}
	return fmt.Sprintf("%016x", h.Sum64())
}

// logShape summarises the log as a canonical string of per-RPC outcomes (for
// distinctness signatures): per rpc, the ordered list of op kinds and codes.
func logShape(env *Env) string {
	recs := env.Log.Records()
	per := map[string][]string{}
	for _, r := range recs {
		s := r.Side[:1] + ":" + r.K
		if r.RetSeq == 0 {
			s += "!open"
		} else if r.Err != "" {
			s += "!" + r.Code.String()
		}
		if r.K == "send" || r.K == "invoke" {
			s += fmt.Sprintf("(%d)", r.Size)
		}
		per[r.RPC] = append(per[r.RPC], s)
	}
	keys := make([]string, 0, len(per))
	for k := range per {
		keys = append(keys, k)
	}
	sort.Strings(keys)
	var b strings.Builder
	for _, k := range keys {
		b.WriteString(k + "=" + strings.Join(per[k], ",") + ";")
	}
	return b.String()
}

// cfgAxes enumerates the common configuration axes.
func cfgAxes(dirs []string, fcs []string, caps []int, lats []time.Duration) []WorldCfg {
	var out []WorldCfg
	for _, d := range dirs {
		for _, fc := range fcs {
			for _, cp := range caps {
				for _, lt := range lats {
					c := WorldCfg{Dir: d, CapFrames: cp, Latency: lt}
					switch fc {
					case "on":
					case "cnofc":
						c.ClientNoFC = true
					case "snofc":
						c.ServerNoFC = true
					case "bothnofc":
						c.ClientNoFC, c.ServerNoFC = true, true
					case "legacy":
						// a revision-zero peer neither sends nor honours the
						// negotiate header: strip it in both directions
						c.StripReq, c.StripResp = true, true
					}
					out = append(out, sanitizeCfg(c))
				}
			}
		}
	}
	return out
}

var allDirs = []string{"forward", "reverse", "nested-ff", "nested-rf", "nested-fr", "nested-rr"}
var allFCs = []string{"on", "on", "cnofc", "snofc", "bothnofc", "legacy"}

func pickCfg(rng *rand.Rand) WorldCfg {
	c := WorldCfg{Dir: allDirs[rng.Intn(len(allDirs))]}
	switch allFCs[rng.Intn(len(allFCs))] {
	case "cnofc":
		c.ClientNoFC = true
	case "snofc":
		c.ServerNoFC = true
	case "bothnofc":
		c.ClientNoFC, c.ServerNoFC = true, true
	case "legacy":
		c.StripReq, c.StripResp = true, true
	}
	c.CapFrames = []int{0, 0, 1, 4, 16}[rng.Intn(5)]
	c.Latency = []time.Duration{0, 0, time.Millisecond}[rng.Intn(3)]
	return sanitizeCfg(c)
}

// sanitizeCfg removes combinations that cannot run in a synctest bubble: a
// goroutine waiting for a sync.Mutex is not "durably blocked", so whenever a
// carrier send can block (bounded capacity, or the outer window of a nested
// tunnel) while holding the library's send mutex AND needs the virtual clock
// to advance before it can continue (latency), the clock never advances.
// Latency is therefore only combined with unbounded, non-nested carriers.
func sanitizeCfg(c WorldCfg) WorldCfg {
	if c.Latency > 0 && (c.CapFrames != 0 || c.CapBytes != 0 || strings.HasPrefix(c.Dir, "nested")) {
		c.Latency = 0
	}
	return c
}
