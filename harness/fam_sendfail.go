package h

// sendfail: a unary call whose request cannot be sent - the message fails to encode (a proto3
// string that is not UTF-8) - on a tunnel that stays up, with a context nobody cancels. Invoke
// returns the error; the RPC is over, so neither end may keep anything of it: the caller's stream
// table is empty, the handler that was started for it is released, no goroutine stays (C14), and
// the next RPC works (C03).

import (
	"context"
	"fmt"
	"math/rand"
	"time"

	"google.golang.org/grpc/metadata"
	"google.golang.org/protobuf/types/known/emptypb"
	"google.golang.org/protobuf/types/known/wrapperspb"
)

func init() { families["sendfail"] = famSendFail }

func sendFailCases(tier string, seed int64) []Case {
	var out []Case
	rng := rand.New(rand.NewSource(seed*733 + 9))
	reps := 1
	if tier == "thorough" {
		reps = 10
	}
	for r := 0; r < reps; r++ {
		for _, dir := range allDirs {
			for _, fc := range []bool{true, false} {
				out = append(out, Case{Family: "sendfail", Seed: rng.Int63(), Cfg: WorldCfg{Dir: dir, ClientNoFC: !fc, ServerNoFC: !fc}, P: map[string]int{"n": 1 + rng.Intn(3)}})
			}
		}
	}
	return out
}

func famSendFail(w *World, c *Case, rng *rand.Rand) {
	if err := w.Open(nil); err != nil {
		w.Violate("C11", "open-failed", "open: %v", err)
		w.Finish()
		return
	}
	n := c.p("n", 1)
	w.SigExtra = fmt.Sprintf("n%d", n)
	w.MarkIdle()
	for i := 0; i < n; i++ {
		id := fmt.Sprintf("bad%d", i)
		w.Env.registerSpec(&RPCSpec{ID: id, Method: "Unary", Handler: []Op{{K: "recv"}, {K: "send", N: 5}, {K: "ret"}}})
		done := make(chan error, 1)
		go func() {
			ctx := metadata.AppendToOutgoingContext(context.Background(), "x-rpc", id)
			done <- w.Ch.Invoke(ctx, "/verif.Svc/Unary", wrapperspb.String("not utf-8: \xff\xfe"), &emptypb.Empty{})
		}()
		w.Advance(100 * time.Millisecond)
		w.Stat("sendfail_calls", 1)
		select {
		case err := <-done:
			if err == nil {
				w.Violate("C02", "unencodable-request-accepted", "Invoke with a request that cannot be encoded returned nil")
			}
		default:
			w.Violate("C04", "op-hangs:client:invoke", "Invoke with a request that cannot be encoded did not return")
		}
	}
	w.Advance(time.Second)
	w.CheckTables(w.TCh, 0, 0, true, "after unary calls whose request could not be sent")
	for _, r := range w.Env.Log.OpenOps() {
		w.Violate("C14", "handler-left-behind", "after a unary call whose request could not be sent: %s op %s of rpc %s is still blocked (the handler started for the call was never released)", r.Side, r.K, r.RPC)
	}
	by := &RPCSpec{ID: "after", Method: "Unary", Client: []Op{{K: "invoke", N: 10}}, Handler: []Op{{K: "recv"}, {K: "send", N: 5}, {K: "ret"}}}
	w.Env.StartRPC(context.Background(), w.Ch, by)
	w.Advance(100 * time.Millisecond)
	if v := buildViews(w.Env)["after"]; v == nil || v.invoke == nil || v.invoke.RetSeq == 0 || v.invoke.Err != "" {
		w.Violate("C03", "bystander-failed", "an RPC after unary calls whose request could not be sent did not complete normally")
	}
	w.CheckIdle("after unary calls whose request could not be sent")
	w.Finish()
}
