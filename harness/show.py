import json,sys,collections
viol=collections.Counter(); st=collections.Counter(); n=0; status=collections.Counter(); wall=0
first={}
for l in open(sys.argv[1]):
    r=json.loads(l); n+=1; status[r['status']]+=1; wall+=r.get('wall_ms',0)
    for k,v in (r.get('stats') or {}).items():
        if k.startswith('wire_max') or k.endswith('_max_msg') or k.startswith('win_max'): st[k]=max(st[k],v)
        else: st[k]+=v
    for v in r.get('violations') or []:
        key=(v['prop'],v['key']); viol[key]+=1
        first.setdefault(key,(r['case'],v['msg']))
    if r['status']!='done' and len(sys.argv)>2: print(r['status'], json.dumps(r['case']), (r.get('dump') or '')[:3000])
print('cases',n,dict(status),'wall_ms',wall)
print({k:v for k,v in sorted(st.items())})
for k,c in viol.most_common():
    print(c,k); print('   case:',json.dumps(first[k][0])); print('   ',first[k][1][:1200])
