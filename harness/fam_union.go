package h

// C13 and C14 are monitored on every frame / at every quiescent point of the
// workloads of the other checks: their case lists are stratified unions.

func init() {
	listers["C13"] = func(tier string, seed int64) []Case {
		var out []Case
		every := map[string]int{"C01": 1, "C02": 1, "C03": 2, "C04": 3, "C05": 4, "C07": 4, "C09": 3, "C10": 1, "C11": 1, "C12": 2, "C16": 2, "C17": 2}
		for _, id := range []string{"C01", "C02", "C03", "C04", "C05", "C07", "C09", "C10", "C11", "C12", "C16", "C17"} {
			if ls := listers[id]; ls != nil {
				out = append(out, stratify(ls(tier, seed), every[id])...)
			}
		}
		out = append(out, writeRaceCases(tier, seed)...)
		return out
	}
	listers["C14"] = func(tier string, seed int64) []Case {
		var out []Case
		every := map[string]int{"C01": 2, "C02": 3, "C03": 1, "C04": 1, "C05": 6, "C07": 2, "C09": 2, "C10": 1, "C11": 2, "C12": 1, "C16": 2, "C17": 3}
		for _, id := range []string{"C04", "C07", "C03", "C09", "C01", "C02", "C05", "C10", "C11", "C12", "C16", "C17"} {
			if ls := listers[id]; ls != nil {
				out = append(out, stratify(ls(tier, seed), every[id])...)
			}
		}
		return out
	}
}
