package h

// C13 and C14 are monitored on every frame / at every quiescent point of the
// workloads of the other checks: their case lists are stratified unions.

func init() {
	listers["C13"] = func(tier string, seed int64) []Case {
		var out []Case
		every := map[string]int{"C01": 1, "C02": 1, "C03": 2, "C04": 3, "C05": 4, "C07": 4, "C09": 3, "C10": 1, "C11": 1, "C12": 2, "C16": 2, "C17": 2}
		for _, id := range []string{"C01", "C02", "C03", "C04", "C05", "C07", "C09", "C10", "C11", "C12", "C16", "C17"} {
			if ls := listers[id]; ls != nil {
				out = append(out, stratify(ls(tier, seed), every[id])...)
			}
		}
		out = append(out, writeRaceCases(tier, seed)...)
		return out
	}
	listers["C14"] = func(tier string, seed int64) []Case {
		var out []Case
		every := map[string]int{"C01": 2, "C02": 3, "C03": 1, "C04": 1, "C05": 6, "C07": 2, "C09": 2, "C10": 1, "C11": 2, "C12": 1, "C16": 2, "C17": 3}
		for _, id := range []string{"C04", "C07", "C03", "C09", "C01", "C02", "C05", "C10", "C11", "C12", "C16", "C17"} {
			if ls := listers[id]; ls != nil {
				out = append(out, stratify(ls(tier, seed), every[id])...)
			}
		}
		return out
	}
}

// Cross-inclusions: every family may refute obligations of properties other
// than the one whose check lists it (all monitors run in every scenario). So
// that no such refutation is lost, the checks of those properties also list a
// stratified sample of the families that can emit their tags.
func init() {
	wrap := func(id string, extra func(tier string, seed int64) []Case) {
		prev := listers[id]
		listers[id] = func(tier string, seed int64) []Case {
			return append(prev(tier, seed), extra(tier, seed)...)
		}
	}
	only := func(cs []Case, fam string, every int) []Case {
		var out []Case
		n := 0
		for _, c := range cs {
			if c.Family == fam {
				if n%every == 0 {
					out = append(out, c)
				}
				n++
			}
		}
		return out
	}
	// the base listers are captured before any wrapping so that the unions do not recurse into each other
	base := map[string]lister{}
	for k, v := range listers {
		base[k] = v
	}
	wrap("C01", func(t string, s int64) []Case {
		out := stratify(base["C04"](t, s), 6)
		out = append(out, stratify(base["C07"](t, s), 8)...)
		out = append(out, only(base["C11"](t, s), "legacyclient", 1)...)
		out = append(out, only(base["C11"](t, s), "legacyserver", 1)...)
		out = append(out, only(base["C11"](t, s), "settings", 2)...)
		out = append(out, only(base["C16"](t, s), "shape16", 3)...)
		return out
	})
	wrap("C04", func(t string, s int64) []Case {
		out := stratify(base["C01"](t, s), 4)
		out = append(out, only(base["C03"](t, s), "disturb", 8)...)
		out = append(out, stratify(base["C07"](t, s), 8)...)
		out = append(out, only(base["C09"](t, s), "rawsrv", 4)...)
		for _, c := range base["C09"](t, s) {
			if c.Family == "rawsrv" && c.S["dev"] == "retarget-unknown-id" {
				out = append(out, c)
			}
			// raw client deviations that are tunnel-level violations: the serving side gives the tunnel up
			if c.Family == "rawconv" {
				switch c.S["dev"] {
				case "insert-frame-unknown-id", "insert-new-dup", "insert-new-lower", "retarget-unknown":
					out = append(out, c)
				}
			}
		}
		out = append(out, only(base["C11"](t, s), "settings", 1)...)
		return out
	})
	wrap("C05", func(t string, s int64) []Case {
		out := only(base["C01"](t, s), "streams", 3)
		out = append(out, only(base["C02"](t, s), "meta", 4)...)
		out = append(out, only(base["C02"](t, s), "hdrtiming", 2)...)
		out = append(out, only(base["C08"](t, s), "idstorm", 3)...)
		out = append(out, only(base["C17"](t, s), "identity", 3)...)
		out = append(out, only(base["C16"](t, s), "appsend16", 1)...)
		return out
	})
	wrap("C07", func(t string, s int64) []Case {
		out := only(base["C09"](t, s), "blockedsend", 1)
		out = append(out, only(base["C08"](t, s), "startcancel", 2)...)
		return out
	})
	wrap("C10", func(t string, s int64) []Case {
		var out []Case
		for _, c := range base["C03"](t, s) {
			if c.Family == "disturb" && c.S["kind"] == "after-shutdown" {
				out = append(out, c)
			}
		}
		return out
	})
	wrap("C12", func(t string, s int64) []Case {
		out := only(base["C10"](t, s), "shutdown", 4)
		out = append(out, only(base["C17"](t, s), "identity", 3)...)
		return out
	})
	wrap("C17", func(t string, s int64) []Case { return only(base["C12"](t, s), "registry", 4) })
	wrap("C02", func(t string, s int64) []Case { return only(base["C17"](t, s), "identity", 3) })
	wrap("C03", func(t string, s int64) []Case {
		out := overrunCases(t, s)
		out = append(out, only(base["C09"](t, s), "blockedsend", 1)...)
		out = append(out, only(base["C16"](t, s), "shape16", 4)...)
		return out
	})
	wrap("C09", func(t string, s int64) []Case { return overrunCases(t, s) })
	wrap("C14", func(t string, s int64) []Case {
		// raw-server deviations on which the caller's own side fails the call: nothing of it may stay
		var out []Case
		for _, c := range base["C09"](t, s) {
			if c.Family == "rawsrv" {
				switch c.S["dev"] {
				case "overrun-one-frame", "data-plus1", "data-plus1-noclose", "envelope-inside", "envelope-inside-noclose", "size-minus1", "dup-msg", "drop-msg-first", "two-responses", "big-chunk":
					out = append(out, c)
				}
			}
		}
		return out
	})
	wrap("C15", func(t string, s int64) []Case {
		// bubble families with many concurrent starters, under the race detector
		out := only(base["C08"](t, s), "idstorm", 4)
		out = append(out, only(base["C01"](t, s), "streams", 8)...)
		out = append(out, only(base["C12"](t, s), "keyrace", 6)...)
		return out
	})
}
