package h

// contoverrun: a raw client sends a chunked request message whose continuation data runs past the
// size its envelope announced - and then goes on sending (or sends nothing more): no half-close
// and no further envelope comes to the server's rescue. The stream-level violation must get its
// documented outcome at once: that RPC alone is failed with InvalidArgument (one close frame),
// its handler's read returns an error, later frames for it are ignored, the tunnel and a
// bystander go on, and the endpoint does not keep assembling the message (C09).

import (
	"fmt"
	"math/rand"
	"runtime"
	"time"

	"google.golang.org/grpc/codes"

	"github.com/jhump/grpctunnel/tunnelpb"
)

func init() { families["contoverrun"] = famContOverrun }

// announced size, bytes in the envelope frame, bytes in the continuation frame
var contOverrunShapes = [][3]int{{10, 4, 8}, {10, 4, 10}, {20000, 16384, 3617}, {20000, 10000, 16384}, {30000, 16384, 16384}, {1, 0, 2}, {100, 1, 100}, {10, 4, 12}}

func contOverrunCases(tier string, seed int64) []Case {
	var out []Case
	rng := rand.New(rand.NewSource(seed*977 + 3))
	reps := 1
	if tier == "thorough" {
		reps = 20
	}
	for r := 0; r < reps; r++ {
		for si := range contOverrunShapes {
			for _, dir := range []string{"forward", "reverse"} {
				for rev := 0; rev < 2; rev++ {
					for _, shape := range []string{"ClientStream", "Bidi", "Unary"} {
						out = append(out, Case{Family: "contoverrun", Seed: rng.Int63(), Cfg: WorldCfg{Dir: dir}, S: map[string]string{"shape": shape}, P: map[string]int{"si": si, "rev": rev, "more": rng.Intn(3)}})
					}
				}
			}
		}
	}
	return out
}

func famContOverrun(w *World, c *Case, rng *rand.Rand) {
	sh := contOverrunShapes[c.p("si", 0)%len(contOverrunShapes)]
	shape, rev := c.s("shape", "ClientStream"), tunnelpb.ProtocolRevision(c.p("rev", 1))
	w.SigExtra = fmt.Sprintf("%v/%s/rev%d/more%d", sh, shape, rev, c.p("more", 0))
	w.Wire.JudgeClient = false
	w.Window.JudgeClient = false
	rc, err := w.OpenRawClient(true, false)
	if err != nil {
		w.Violate("C09", "raw-open-failed", "raw client could not open the tunnel: %v", err)
		w.Finish()
		return
	}
	w.Wait()
	hv := []Op{{K: "recvall"}, {K: "send", N: 1}, {K: "ret"}}
	if shape == "Unary" {
		hv = []Op{{K: "recv"}, {K: "send", N: 1}, {K: "ret"}}
	}
	w.Env.registerSpec(&RPCSpec{ID: "v", Method: shape, Handler: hv})
	w.Env.registerSpec(&RPCSpec{ID: "by", Method: "Unary", Handler: []Op{{K: "recv"}, {K: "send", N: 16}, {K: "ret"}}})
	send := func(f *tunnelpb.ClientToServer) { _ = rc.Send(f) }
	send(fNew(0, "verif.Svc/"+shape, "v", rev, 65536))
	if c.p("more", 0) == 2 {
		// a well-formed first message before the malformed one (streaming request shapes only)
		if shape != "Unary" {
			for _, f := range msgFramesC2S(0, wrapBytes(GenPayload("v", dirReq, 0, 20000)), 16384) {
				send(f)
			}
		}
	}
	send(fMsg(0, uint32(sh[0]), make([]byte, sh[1])))
	send(fMore(0, make([]byte, sh[2])))
	w.Advance(100 * time.Millisecond)
	w.Stat("contoverrun_runs", 1)
	views, recvDone, recvErr := rc.Snapshot()
	v := views[0]
	if v.Closes != 1 || codes.Code(v.Close.GetStatus().GetCode()) != codes.InvalidArgument {
		code := "none"
		if v.Close != nil {
			code = codes.Code(v.Close.GetStatus().GetCode()).String()
		}
		w.Violate("C09", "continuation-overrun-not-failed", "request message announced %d bytes, its frames carry %d + %d: the RPC got %d close frame(s), status %s; want exactly one InvalidArgument, without waiting for more frames", sh[0], sh[1], sh[2], v.Closes, code)
	}
	for _, r := range w.Env.Log.OpenOps() {
		if r.RPC == "v" && r.Side == "handler" && r.K == "recv" {
			w.Violate("C09", "handler-left-waiting-on-malformed-message", "request message announced %d bytes, its frames carry %d + %d: the handler's read is still blocked", sh[0], sh[1], sh[2])
		}
	}
	// the peer keeps sending continuation data: ignored, nothing retained
	runtime.GC()
	var m0, m1 runtime.MemStats
	runtime.ReadMemStats(&m0)
	if c.p("more", 0) >= 1 {
		chunk := make([]byte, 16384)
		if sh[0] < 16384 {
			chunk = chunk[:sh[0]]
		}
		for i := 0; i < 400; i++ {
			send(fMore(0, chunk))
			if i%50 == 0 {
				w.Wait()
			}
		}
		w.Advance(100 * time.Millisecond)
		runtime.GC()
		runtime.ReadMemStats(&m1)
		if growth := int64(m1.HeapAlloc) - int64(m0.HeapAlloc); growth > 4<<20 {
			w.Violate("C09", "endpoint-bloated-by-peer-input", "continuation frames after an overrun of the announced size grew the live heap by %d KiB", growth>>10)
		}
	}
	// the tunnel and a bystander go on
	send(fNew(1, "verif.Svc/Unary", "by", rev, 65536))
	for _, f := range msgFramesC2S(1, wrapBytes(GenPayload("by", dirReq, 0, 5)), 16384) {
		send(f)
	}
	send(fHalf(1))
	w.Advance(time.Second)
	views, recvDone, recvErr = rc.Snapshot()
	if recvDone {
		w.Violate("C09", "stream-level-violation-killed-tunnel", "a continuation overrun on one stream ended the tunnel: %v", recvErr)
		w.Violate("C03", "raw-deviation-killed-tunnel", "a continuation overrun on one stream ended the tunnel: %v", recvErr)
	} else if b := views[1]; b.Closes != 1 || b.Close.GetStatus().GetCode() != 0 || len(b.Msgs) != 1 {
		w.Violate("C09", "bystander-stream-disturbed", "after a continuation overrun on another stream a unary call did not complete normally (closes=%d, msgs=%d)", b.Closes, len(b.Msgs))
		w.Violate("C03", "raw-deviation-disturbed-bystander", "after a continuation overrun on another stream a unary call did not complete normally")
	}
	if views[0].Closes > 1 {
		w.Violate("C13", "second-close", "stream with a continuation overrun got %d close frames", views[0].Closes)
	}
	rc.Hangup()
	w.Advance(time.Second)
	for _, r := range w.Env.Log.OpenOps() {
		w.Violate("C09", "handler-op-open-after-hangup", "handler %s op %s still blocked after the peer hung up", r.RPC, r.K)
	}
	w.CheckTables(nil, 0, 0, true, "after raw peer hung up")
	w.Finish()
}
