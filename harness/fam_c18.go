package h

// C18: grpc-timeout request header -> exact handler deadline. The oracle is an
// independent implementation of the gRPC wire specification.

import (
	"fmt"
	"math"
	"math/rand"
	"strconv"
	"strings"
	"time"
)

// specTimeout implements "Timeout -> TimeoutValue TimeoutUnit; TimeoutValue ->
// {positive integer as ASCII string of at most 8 digits}; TimeoutUnit -> H M S m u n".
// ok=false: malformed. Values whose duration exceeds int64 nanoseconds saturate.
func specTimeout(s string) (d time.Duration, ok bool) {
	if len(s) < 2 || len(s) > 9 {
		return 0, false
	}
	digits, unit := s[:len(s)-1], s[len(s)-1]
	for i := 0; i < len(digits); i++ {
		if digits[i] < '0' || digits[i] > '9' {
			return 0, false
		}
	}
	var u time.Duration
	switch unit {
	case 'H':
		u = time.Hour
	case 'M':
		u = time.Minute
	case 'S':
		u = time.Second
	case 'm':
		u = time.Millisecond
	case 'u':
		u = time.Microsecond
	case 'n':
		u = time.Nanosecond
	default:
		return 0, false
	}
	n, err := strconv.ParseUint(digits, 10, 64)
	if err != nil {
		return 0, false
	}
	if n > uint64(math.MaxInt64)/uint64(u) {
		return time.Duration(math.MaxInt64), true
	}
	return time.Duration(n) * u, true
}

func allZero(s string) bool {
	if len(s) < 2 {
		return false
	}
	for i := 0; i < len(s)-1; i++ {
		if s[i] != '0' {
			return false
		}
	}
	return true
}

func timeoutInputs(tier string, seed int64) []string {
	units := "HMSmun"
	var vals []string
	add := func(v string) { vals = append(vals, v) }
	rng := rand.New(rand.NewSource(seed*31 + 18))
	for _, u := range units {
		us := string(u)
		maxSmall := 120
		if tier == "thorough" {
			maxSmall = 999
		}
		for n := 1; n <= maxSmall; n++ {
			add(fmt.Sprint(n) + us)
		}
		for p := 1; p <= 8; p++ {
			t := int64(math.Pow10(p))
			for _, d := range []int64{-1, 0, 1} {
				v := t + d
				if v > 0 {
					add(fmt.Sprint(v) + us)
				}
			}
		}
		// leading zeros
		add("0001" + us)
		add("00000001" + us)
		add("000000001" + us)
		// per-unit overflow boundary of int64 nanoseconds, +-1 (9..19 digits: beyond the 8-digit limit, i.e. malformed)
		unitNs := map[rune]int64{'H': int64(time.Hour), 'M': int64(time.Minute), 'S': int64(time.Second), 'm': int64(time.Millisecond), 'u': int64(time.Microsecond), 'n': 1}[u]
		b := math.MaxInt64 / unitNs
		for _, d := range []int64{-1, 0, 1, 2} {
			add(fmt.Sprint(b+d) + us)
		}
		// 8-digit maximum and beyond
		add("99999999" + us)
		add("100000000" + us)
		add("999999999" + us)
		add("18446744073709551615" + us)
		add("18446744073709551616" + us)
		add("99999999999999999999" + us)
		// signs, spaces
		add("-5" + us)
		add("+5" + us)
		add(" 5" + us)
		add("5 " + us)
		add("5" + us + " ")
		add("5." + us)
		add("5e3" + us)
		add("0x10" + us)
		add("1_000" + us)
		add("５" + us) // full-width digit
		add("٣" + us) // arabic-indic digit
		add(us)
		add(us + us)
		add("5" + us + us)
		add(strings.ToLower(us) + "5")
	}
	for _, v := range []string{"\x1e", "5", "12345678", "5s", "5h", "5U", "5N", "5d", "5ms", "5 S", "S5", "-", "+", "--5S", "5\x00S", "5\tS", "NaNS", "InfS", "1e2S", "٠S"} {
		add(v)
	}
	// every byte value in the unit position (only the six letters of the specification are units)
	// (bytes above 0x7f alone are not valid UTF-8 - the known finding D6 - so multi-byte letters stand in)
	for b := 0; b < 128; b++ {
		if b == 0x1e || b == 0x1f { // (the script language's own tokens)
			continue
		}
		add("5" + string([]byte{byte(b)}))
		add("12345678" + string([]byte{byte(b)}))
	}
	for _, u := range []string{"µ", "μ", "é", "ｓ", " ", " ", "😀"} {
		add("5" + u)
		add("12345678" + u)
	}
	// repeated headers (separator \x1f): last wins when all are valid
	for _, v := range [][]string{{"5S", "7S"}, {"7S", "5S"}, {"1H", "1n"}, {"5S", "bogus"}, {"bogus", "5S"}, {"-1S", "3S"}, {"3S", "-1S"}, {"5S", "\x1e"}, {"\x1e", "5S"}, {"\x1e", "\x1e"}, {"S", "5S"}, {"5S", "S"}} {
		add(strings.Join(v, "\x1f"))
	}
	nrand := 300
	if tier == "thorough" {
		nrand = 300000
	}
	for i := 0; i < nrand; i++ {
		nd := 1 + rng.Intn(10)
		var b strings.Builder
		for j := 0; j < nd; j++ {
			b.WriteByte(byte('0' + rng.Intn(10)))
		}
		s := b.String()
		switch rng.Intn(12) {
		case 0:
			s = "-" + s
		case 1:
			s = "+" + s
		case 2:
			s = s + " "
		}
		u := units[rng.Intn(len(units))]
		if rng.Intn(15) == 0 {
			u = "hsdUNx"[rng.Intn(6)]
		}
		add(s + string(u))
	}
	// drop all-zero values: the specification says "positive", grpc-go accepts 0; the property does not decide
	out := vals[:0]
	for _, v := range vals {
		skip := false
		for _, part := range strings.Split(v, "\x1f") {
			if allZero(part) {
				skip = true
			}
		}
		if !skip {
			out = append(out, v)
		}
	}
	return out
}

func init() {
	families["timeout"] = famTimeout
	listers["C18"] = func(tier string, seed int64) []Case {
		vals := timeoutInputs(tier, seed)
		var out []Case
		dirs := []string{"forward", "reverse"}
		per := 40
		for i := 0; i < len(vals); i += per {
			j := i + per
			if j > len(vals) {
				j = len(vals)
			}
			out = append(out, Case{Family: "timeout", Seed: seed, Cfg: WorldCfg{Dir: dirs[(i/per)%2]}, L: vals[i:j]})
		}
		return out
	}
}

func famTimeout(w *World, c *Case, rng *rand.Rand) {
	if err := w.Open(nil); err != nil {
		w.Violate("C11", "open-failed", "open: %v", err)
		w.Finish()
		return
	}
	w.SigExtra = strings.Join(c.L, "\x1e")
	for i, v := range c.L {
		id := fmt.Sprintf("t%d", i)
		spec := &RPCSpec{ID: id, Method: "Unary", GrpcTimeout: v,
			Client:  []Op{{K: "invoke", N: 3}},
			Handler: []Op{{K: "deadline"}, {K: "recv"}, {K: "send", N: 4}, {K: "ret"}}}
		w.Env.StartRPC(w.RootCtx, w.Ch, spec)
		w.Wait()
		// judge
		var got string
		seen := false
		for _, r := range w.Env.Log.Records() {
			if r.RPC == id && r.K == "deadline" && r.RetSeq != 0 {
				got = r.Extra["deadline_ns"]
				seen = true
			}
		}
		w.Stat("timeout_values", 1)
		if !seen {
			w.Violate("C18", "handler-not-invoked", "grpc-timeout %q: the handler was never invoked (no deadline reading)", v)
			continue
		}
		parts := strings.Split(v, "\x1f")
		allValid := true
		var valid []time.Duration
		for _, p := range parts {
			if p == "\x1e" {
				p = ""
			}
			d, ok := specTimeout(p)
			if ok {
				valid = append(valid, d)
			} else {
				allValid = false
			}
		}
		gotNone := got == "none"
		var gotNs int64
		if !gotNone {
			gotNs, _ = strconv.ParseInt(got, 10, 64)
		}
		switch {
		case allValid:
			want := valid[len(valid)-1]
			w.Stat("timeout_valid", 1)
			if want == time.Duration(math.MaxInt64) {
				w.Stat("timeout_saturating", 1)
				if !gotNone && gotNs < math.MaxInt64-int64(time.Second) {
					w.Violate("C18", "overflow-not-saturated", "grpc-timeout %q exceeds the representable range: handler deadline is %v from now, expected none or the maximum", v, time.Duration(gotNs))
				}
			} else if gotNone || gotNs != int64(want) {
				w.Violate("C18", "wrong-deadline", "grpc-timeout %q: handler deadline is %s from now, the wire specification says %v", v, fmtNs(gotNone, gotNs), want)
			}
		default:
			w.Stat("timeout_malformed", 1)
			// malformed (at least one value): must not shorten below what the valid values (if any) say; no deadline is fine
			if !gotNone {
				ok := false
				for _, d := range valid {
					if gotNs == int64(d) {
						ok = true
					}
				}
				if !ok {
					w.Violate("C18", "malformed-header-shortens-deadline", "grpc-timeout %q is malformed under the wire specification but the handler got a deadline %v from now", v, time.Duration(gotNs))
				}
			}
		}
		// the RPC itself must complete (unless its deadline legitimately is tiny: then DeadlineExceeded is fine)
		w.Advance(time.Millisecond)
	}
	w.Advance(time.Second)
	w.Finish()
}

func fmtNs(none bool, ns int64) string {
	if none {
		return "absent"
	}
	return time.Duration(ns).String()
}
