package h

// stopcontend (engine E2, free-running): a reverse-tunnel server with several
// tunnels is shut down gracefully and then stopped while Stop is slowed down
// inside its critical section (a few milliseconds before each tunnel's
// half-close, under the server's own lock - something the stepped engine cannot
// do). RPCs started on the other tunnels in that window were started after
// graceful shutdown: none of them may reach a handler or succeed (C10).

import (
	"context"
	"fmt"
	"math/rand"
	"sync"
	"sync/atomic"
	"time"

	"google.golang.org/grpc/codes"

	"github.com/jhump/grpctunnel"
	"github.com/jhump/grpctunnel/tunnelpb"
)

func init() {
	families["stopcontend"] = famStopContend
	freeFamilies["stopcontend"] = true
	add := func(id string, quick, thorough int) {
		prev := listers[id]
		listers[id] = func(tier string, seed int64) []Case {
			out := prev(tier, seed)
			rng := rand.New(rand.NewSource(seed*6007 + 1010))
			n := quick
			if tier == "thorough" {
				n = thorough
			}
			for i := 0; i < n; i++ {
				cfg := WorldCfg{Dir: "reverse"}
				if i%4 == 3 {
					cfg.ClientNoFC, cfg.ServerNoFC = true, true
				}
				out = append(out, Case{Family: "stopcontend", Seed: rng.Int63(), Cfg: cfg, P: map[string]int{"tunnels": 2 + i%3, "graceful": (i / 3) % 2}})
			}
			return out
		}
	}
	add("C10", 24, 600)
	add("C15", 12, 300)
}

func famStopContend(w *World, c *Case, rng *rand.Rand) {
	nt := c.p("tunnels", 3)
	w.Handler = w.NewHandler(w.Cfg.ClientNoFC, AffinityFromMD)
	tunnelpb.RegisterTunnelServiceServer(w.Conn, w.Handler.Service())
	w.Stub = tunnelpb.NewTunnelServiceClient(w.Conn)
	rs := grpctunnel.NewReverseTunnelServer(w.Stub, w.serverOpts()...)
	desc, impl := NewSvc(w.Env, "rev")
	rs.RegisterService(desc, impl)
	for i := 0; i < nt; i++ {
		w.startServe(rs, w.RootCtx, fmt.Sprintf("rev-%d", i))
	}
	w.mu.Lock()
	w.RevSrvs = []*grpctunnel.ReverseTunnelServer{rs}
	w.mu.Unlock()
	deadline := time.Now().Add(10 * time.Second)
	for len(w.Handler.AllReverseTunnels()) < nt && time.Now().Before(deadline) {
		time.Sleep(time.Millisecond)
	}
	if len(w.Handler.AllReverseTunnels()) < nt {
		w.Note("only %d of %d tunnels registered", len(w.Handler.AllReverseTunnels()), nt)
		w.Finish()
		return
	}
	ch := w.Handler.AsChannel()
	// one in-flight call per tunnel keeps the tunnels up during the graceful phase
	var holders []*RPCSpec
	for i := 0; i < nt; i++ {
		s := &RPCSpec{ID: fmt.Sprintf("hold%d", i), Method: "Bidi",
			Client:  []Op{{K: "open"}, {K: "send", N: 100}, {K: "recv"}, {K: "sync", Name: "fin"}, {K: "close"}, {K: "recvall"}},
			Handler: []Op{{K: "recv"}, {K: "send", N: 50}, {K: "signal", Name: fmt.Sprintf("up%d", i)}, {K: "recvall"}, {K: "ret"}}}
		holders = append(holders, s)
		w.Env.StartRPC(context.Background(), ch, s)
		if !w.awaitFree(w.Env.syncChan(fmt.Sprintf("up%d", i))) {
			w.Violate("C05", "scenario-stuck", "stopcontend: holder call %d did not start", i)
			w.Finish()
			return
		}
	}
	var probeCtr atomic.Int64
	probe := func() *OpRec {
		n := probeCtr.Add(1)
		s := &RPCSpec{ID: fmt.Sprintf("p%d", n), Method: "Unary", Client: []Op{{K: "invoke", N: 10}}, Handler: []Op{{K: "recv"}, {K: "send", N: 5}, {K: "ret"}}}
		w.Env.StartRPC(context.Background(), ch, s)
		if !w.awaitFree(s.done) {
			return nil
		}
		return clientTerminal(buildViews(w.Env)[s.ID])
	}
	if c.p("graceful", 1) == 1 {
		go rs.GracefulStop()
		// the graceful shutdown is in effect once a probe on every tunnel has been refused
		refused := 0
		for i := 0; i < 200 && refused < 2*nt; i++ {
			if t := probe(); t != nil && t.Code == codes.Unavailable {
				refused++
			} else {
				refused = 0
				time.Sleep(200 * time.Microsecond)
			}
		}
		if refused < 2*nt {
			w.Note("graceful shutdown never took effect")
			w.Finish()
			return
		}
	}
	firstLate := int(probeCtr.Load()) + 1
	// Stop, slowed down under its own lock; RPCs on the other tunnels meanwhile
	w.installYield(&YieldPlan{Fn: func(p string, n int) {
		if p == "revsrv.stop.beforeCloseSend" {
			w.Stat("stop_slowed_under_lock", 1)
			time.Sleep(4 * time.Millisecond)
		}
	}})
	stopDone := make(chan struct{})
	if c.p("graceful", 1) == 1 {
		go func() { rs.Stop(); close(stopDone) }()
		var wg sync.WaitGroup
		for i := 0; i < 3*nt; i++ {
			wg.Add(1)
			go func() { defer wg.Done(); probe() }()
			time.Sleep(time.Duration(500+rng.Intn(1500)) * time.Microsecond)
		}
		wg.Wait()
	} else {
		close(stopDone)
	}
	w.Env.Signal("fin")
	if c.p("graceful", 1) != 1 {
		for _, s := range holders {
			w.awaitFree(s.done)
		}
		stop2 := make(chan struct{})
		go func() { rs.Stop(); close(stop2) }()
		w.awaitFree(stop2)
	}
	if !w.awaitFree(stopDone) {
		w.Violate("C10", "stop-blocked", "stopcontend: Stop did not return")
	}
	// verdict: nothing started after the graceful shutdown took effect reached a handler or succeeded
	invoked := map[string]bool{}
	w.Env.Log.mu.Lock()
	for _, inv := range w.Env.Log.Invocations {
		invoked[inv.RPC] = true
	}
	w.Env.Log.mu.Unlock()
	views := buildViews(w.Env)
	if c.p("graceful", 1) == 1 {
		for i := firstLate; i <= int(probeCtr.Load()); i++ {
			id := fmt.Sprintf("p%d", i)
			w.Stat("stopcontend_rpcs_during_stop", 1)
			if invoked[id] {
				w.Violate("C10", "rpc-after-shutdown-invoked-handler", "stopcontend: an RPC started after graceful shutdown had taken effect (while Stop was closing the tunnels one by one) reached a handler")
			}
			if t := clientTerminal(views[id]); t != nil && t.K == "invoke" && t.Err == "" {
				w.Violate("C10", "rpc-after-shutdown-not-unavailable", "stopcontend: an RPC started after graceful shutdown had taken effect succeeded")
			}
		}
	}
	w.Stat("stopcontend_runs", 1)
	w.Finish()
}
