package h

// Families for C02: status / headers / trailers / request metadata, with the
// caller's Recv/Header/Trailer calls interleaved against gated delivery of
// the header, message and close frames, and with the receive loop parked at
// the lock-free yield points (the trailer-publication window).

import (
	"context"
	"fmt"
	"math/rand"
	"strings"
	"time"

	"google.golang.org/grpc/metadata"
)

func init() {
	families["meta"] = famMeta
	families["nonutf8"] = famNonUTF8
	listers["C02"] = func(tier string, seed int64) []Case {
		var out []Case
		rng := rand.New(rand.NewSource(seed*104729 + 2))
		n := 360
		if tier == "thorough" {
			n = 40000
		}
		for i := 0; i < n; i++ {
			cfg := pickCfg(rng)
			c := Case{Family: "meta", Seed: rng.Int63(), Cfg: cfg, P: map[string]int{"gated": 0, "park": rng.Intn(2)}}
			if c.P["park"] == 1 {
				// a parked receive loop must never leave a sender blocked
				// inside the carrier (see sanitizeCfg): unbounded, non-nested
				c.Cfg.CapFrames = 0
				c.Cfg.Dir = []string{"forward", "reverse"}[rng.Intn(2)]
			}
			if i%3 == 0 {
				// gated delivery needs an unbounded, latency-free carrier
				c.Cfg.CapFrames, c.Cfg.Latency = 0, 0
				c.Cfg.Dir = []string{"forward", "reverse"}[rng.Intn(2)]
				c.P["gated"] = 1
			}
			out = append(out, c)
		}
		for _, pos := range []string{"request", "response-header", "trailer"} {
			for _, dir := range allDirs {
				out = append(out, Case{Family: "nonutf8", Seed: rng.Int63(), Cfg: WorldCfg{Dir: dir}, S: map[string]string{"pos": pos}})
			}
		}
		return out
	}
}

// shuffleMeta moves header/trailer ops of a handler script to random legal-ish
// positions and sprinkles Header()/Trailer() reads over the client script.
func shuffleMeta(rng *rand.Rand, spec *RPCSpec) {
	// handler: pull out meta ops, reinsert anywhere before ret
	var meta, rest []Op
	for _, op := range spec.Handler {
		switch op.K {
		case "sethdr", "sendhdr", "settrl":
			meta = append(meta, op)
		default:
			rest = append(rest, op)
		}
	}
	for i := range meta {
		if rng.Intn(3) == 0 {
			meta[i].Name = "ctx"
		}
	}
	for _, m := range meta {
		pos := rng.Intn(len(rest)) // before the final ret
		rest = append(rest[:pos], append([]Op{m}, rest[pos:]...)...)
	}
	spec.Handler = rest
	// client: extra header/trailer reads after the half-close (never before: a
	// Header() call before the request is sent is an application-level deadlock)
	closeAt := -1
	for i, op := range spec.Client {
		if op.K == "close" {
			closeAt = i
		}
	}
	if closeAt >= 0 && spec.Method != "Bidi" {
		extra := rng.Intn(3)
		for i := 0; i < extra; i++ {
			pos := closeAt + 1 + rng.Intn(len(spec.Client)-closeAt)
			k := []string{"header", "trailer"}[rng.Intn(2)]
			spec.Client = append(spec.Client[:pos], append([]Op{{K: k}}, spec.Client[pos:]...)...)
		}
	}
	// always end with trailer + header reads, a repeated terminal read, and (sometimes) a second half-close
	if spec.Method != "Unary" {
		spec.Client = append(spec.Client, Op{K: "trailer"}, Op{K: "header"}, Op{K: "recv"}, Op{K: "trailer"})
		if rng.Intn(3) == 0 {
			spec.Client = append(spec.Client, Op{K: "close"}, Op{K: "recv"}, Op{K: "header"}, Op{K: "trailer"})
		}
		if rng.Intn(3) == 0 && len(spec.ClientHdr) == 0 {
			// a third goroutine blocked in Header() from the very start
			spec.ClientHdr = []Op{{K: "header"}}
		}
	}
}

func famMeta(w *World, c *Case, rng *rand.Rand) {
	if err := w.Open(genMD(rng, "open")); err != nil {
		w.Violate("C11", "open-failed", "opening the tunnel failed in configuration %s: %v", w.Cfg, err)
		w.Finish()
		return
	}
	if c.p("park", 0) == 1 {
		plan := &YieldPlan{Parks: map[string][]time.Duration{}}
		for _, pt := range []string{"client.finish.betweenPublish", "client.finish.afterDone", "client.recv.gotFrame", "server.finish.beforeWrite"} {
			ds := make([]time.Duration, 64)
			for i := range ds {
				if rng.Intn(2) == 0 {
					ds[i] = time.Duration(1+rng.Intn(3)) * time.Millisecond
				}
			}
			plan.Parks[pt] = ds
		}
		w.installYield(plan)
	} else {
		w.installYield(&YieldPlan{})
	}
	k := 1 + rng.Intn(3)
	budget := 400000
	o := ScriptOpts{FlowControl: w.Cfg.RevisionOne(), MaxMsgs: 3, MaxSize: 70000, Pacing: "eager", Status: true, Meta: true, BudgetLeft: &budget}
	var specs []*RPCSpec
	for i := 0; i < k; i++ {
		s := GenRPC(rng, fmt.Sprintf("m%d", i), o)
		shuffleMeta(rng, s)
		if rng.Intn(6) == 0 {
			// per-RPC credentials and no outgoing metadata at all: the rpc tag travels in the credentials
			s.NoOutgoingMD = true
			s.ReqMD = nil
			s.Creds = map[string]string{"x-rpc": s.ID, "authorization": "bearer"}
		}
		specs = append(specs, s)
	}
	gated := c.p("gated", 0) == 1
	if gated {
		w.Conn.SetGated(true)
	}
	for _, s := range specs {
		w.Env.StartRPC(w.RootCtx, w.Ch, s)
	}
	if gated {
		w.driveGate(rng, 4000)
		w.Conn.SetGated(false)
		for _, l := range w.Conn.Links() {
			l.ReleaseAll()
		}
	}
	w.Advance(time.Minute)
	for _, r := range w.Env.Log.OpenOps() {
		w.Violate("C05", "op-stuck-in-clean-run", "operation %s %s[%d] of rpc %s still blocked after a minute of virtual time in a run with no faults (cfg %s)", r.Side, r.K, r.Idx, r.RPC, w.Cfg)
	}
	w.CheckDelivery()
	w.CheckOutcome()
	w.CheckTables(w.TCh, 0, 0, true, "after all RPCs finished")
	w.CheckIdle("after all RPCs finished")
	w.Stat("rpcs", k)
	w.Finish()
}

// driveGate releases held frames one at a time, choosing the direction (and
// link) at random, waiting for quiescence in between. Returns the order chosen.
func (w *World) driveGate(rng *rand.Rand, maxSteps int) string {
	order := make([]byte, 0, 64)
	for step := 0; step < maxSteps; step++ {
		w.Wait()
		type cand struct {
			l *Link
			d Dir
		}
		var cands []cand
		for _, l := range w.Conn.Links() {
			for _, d := range []Dir{C2S, S2C} {
				tot, rel := l.Pending(d)
				if tot > rel {
					cands = append(cands, cand{l, d})
				}
			}
		}
		if len(cands) == 0 {
			// nothing held: let virtual time pass a little in case actors sleep
			time.Sleep(time.Millisecond)
			w.Wait()
			any := false
			for _, l := range w.Conn.Links() {
				for _, d := range []Dir{C2S, S2C} {
					tot, rel := l.Pending(d)
					if tot > rel {
						any = true
					}
				}
			}
			if !any {
				break
			}
			continue
		}
		ch := cands[rng.Intn(len(cands))]
		// sometimes release a burst
		n := 1
		if rng.Intn(5) == 0 {
			n = 1 + rng.Intn(4)
		}
		ch.l.Release(ch.d, n)
		if len(order) < 64 {
			order = append(order, "cs"[ch.d])
		}
		w.Stat("gate_releases", 1)
	}
	return string(order)
}

// famNonUTF8 is the probe for the known finding: any string that is not valid
// UTF-8 (legal in '-bin' metadata) cannot be carried.
func famNonUTF8(w *World, c *Case, rng *rand.Rand) {
	if err := w.Open(nil); err != nil {
		w.Violate("C11", "open-failed", "open: %v", err)
		w.Finish()
		return
	}
	bad := string([]byte{0xff, 0xfe, 0x00, 0x80})
	pos := c.s("pos", "request")
	by := &RPCSpec{ID: "by", Method: "Bidi",
		Client:  []Op{{K: "open"}, {K: "send", N: 10}, {K: "recv"}, {K: "sync", Name: "go"}, {K: "send", N: 20}, {K: "recv"}, {K: "close"}, {K: "recvall"}},
		Handler: []Op{{K: "recv"}, {K: "send", N: 11}, {K: "recv"}, {K: "send", N: 21}, {K: "recv"}, {K: "ret"}}}
	d := &RPCSpec{ID: "d", Method: "Unary", Client: []Op{{K: "invoke", N: 5}}, Handler: []Op{{K: "ident"}, {K: "recv"}, {K: "send", N: 5}, {K: "ret"}}}
	switch pos {
	case "request":
		d.ReqMD = metadata.MD{"blob-bin": {bad}}
	case "response-header":
		d.Handler = append([]Op{{K: "sethdr", MD: metadata.MD{"blob-bin": {bad}}}}, d.Handler...)
		d.UseHeaderOpt = true
	case "trailer":
		d.Handler = append([]Op{{K: "settrl", MD: metadata.MD{"blob-bin": {bad}}}}, d.Handler...)
		d.UseTrailerOpt = true
	}
	w.Env.StartRPC(w.RootCtx, w.Ch, by)
	w.Advance(time.Second)
	w.Env.StartRPC(w.RootCtx, w.Ch, d)
	w.Advance(time.Second)
	w.Env.Signal("go")
	w.Advance(time.Second)
	// C02: the disturber's own metadata must arrive exactly
	views := buildViews(w.Env)
	dv := views["d"]
	okC02 := false
	if dv != nil && dv.invoke != nil && dv.invoke.RetSeq != 0 && dv.invoke.Err == "" {
		switch pos {
		case "request":
			for _, r := range dv.all {
				if r.K == "ident" && len(r.MD["blob-bin"]) == 1 && r.MD["blob-bin"][0] == bad {
					okC02 = true
				}
			}
		case "response-header":
			okC02 = dv.invoke.Extra["hdr_opt"] == mdString(metadata.MD{"blob-bin": {bad}})
		case "trailer":
			okC02 = dv.invoke.Extra["trl_opt"] == mdString(metadata.MD{"blob-bin": {bad}})
		}
	}
	if !okC02 {
		errs := ""
		if dv != nil && dv.invoke != nil {
			errs = dv.invoke.Err
		}
		w.Violate("C02", "non-utf8-metadata:"+pos, "binary metadata value that is not valid UTF-8 (%s position) was not delivered exactly; Invoke result: %q", pos, errs)
	}
	// C03: the bystander and the tunnel must be unaffected
	bv := views["by"]
	bad3 := false
	for _, r := range bv.all {
		if r.Side == "client" && (r.K == "recv" || r.K == "send") && r.RetSeq != 0 && r.Err != "" && !r.EOF {
			bad3 = true
		}
		if r.RetSeq == 0 {
			bad3 = true
		}
	}
	select {
	case <-w.TCh.Done():
		bad3 = true
	default:
	}
	if bad3 {
		// over a carrier that is itself a tunnelled stream the failed send
		// does not end the carrier, so this is a different failure from the
		// one over a grpc-go stream and is keyed separately
		key := "tunnel-killed-by-unencodable-metadata:" + pos
		if strings.HasPrefix(w.Cfg.Dir, "nested") {
			key += ":nested-carrier"
		}
		w.Violate("C03", key, "an RPC carrying a non-UTF-8 metadata value (%s position, %s) ended the tunnel / failed the bystander RPC (tunnel err: %v)", pos, w.Cfg.Dir, w.TCh.Err())
	}
	w.Stat("nonutf8_probes", 1)
	w.Finish()
}

// ---- header timing: "headers are available no later than the first response message" ----

func init() {
	families["hdrtiming"] = famHdrTiming
	prev := listers["C02"]
	listers["C02"] = func(tier string, seed int64) []Case {
		out := prev(tier, seed)
		rng := rand.New(rand.NewSource(seed*104723 + 22))
		reps := 1
		if tier == "thorough" {
			reps = 40
		}
		for r := 0; r < reps; r++ {
			for _, dir := range allDirs {
				for _, fc := range []bool{true, false} {
					for hv := 0; hv < 5; hv++ {
						for _, shape := range []string{"ServerStream", "Bidi"} {
							cfg := WorldCfg{Dir: dir}
							if !fc {
								cfg.ClientNoFC, cfg.ServerNoFC = true, true
							}
							out = append(out, Case{Family: "hdrtiming", Seed: rng.Int63(), Cfg: cfg, P: map[string]int{"hv": hv}, S: map[string]string{"shape": shape}})
						}
					}
				}
			}
		}
		return out
	}
}

// famHdrTiming: the handler sends one message and then waits; the caller
// receives it and calls Header(): the call must return at once (the handler is
// still running), with exactly what the handler set - including nothing at all.
func famHdrTiming(w *World, c *Case, rng *rand.Rand) {
	if err := w.Open(nil); err != nil {
		w.Violate("C11", "open-failed", "open: %v", err)
		w.Finish()
		return
	}
	hv, shape := c.p("hv", 0), c.s("shape", "ServerStream")
	w.SigExtra = fmt.Sprintf("%s/%d", shape, hv)
	var pre []Op
	var want metadata.MD
	switch hv {
	case 0: // no header call at all
	case 1:
		pre = []Op{{K: "sethdr", MD: metadata.MD{}}}
	case 2:
		want = metadata.MD{"h": {"1", "2"}}
		pre = []Op{{K: "sethdr", MD: want}}
	case 3:
		want = metadata.MD{"h": {"1"}, "g-bin": {"x"}}
		pre = []Op{{K: "sethdr", MD: metadata.MD{"h": {"1"}}, Name: "ctx"}, {K: "sethdr", MD: metadata.MD{"g-bin": {"x"}}}}
	case 4:
		pre = []Op{{K: "sendhdr"}}
	}
	s := &RPCSpec{ID: "ht", Method: shape}
	s.Handler = append([]Op{{K: "recv"}}, pre...)
	s.Handler = append(s.Handler, Op{K: "send", N: genSize(rng, 70000)}, Op{K: "sync", Name: "finish"}, Op{K: "send", N: 5}, Op{K: "settrl", MD: metadata.MD{"t": {"z"}}}, Op{K: "ret"})
	s.Client = []Op{{K: "open"}, {K: "send", N: 10}}
	if shape == "ServerStream" {
		s.Client = append(s.Client, Op{K: "close"})
	}
	s.Client = append(s.Client, Op{K: "recv"}, Op{K: "header"}, Op{K: "signal", Name: "got-header"}, Op{K: "sync", Name: "finish"}, Op{K: "recvall"}, Op{K: "header"}, Op{K: "trailer"})
	w.Env.StartRPC(context.Background(), w.Ch, s)
	w.Advance(10 * time.Millisecond)
	w.Stat("hdrtiming_runs", 1)
	for _, r := range w.Env.Log.OpenOps() {
		if r.RPC == "ht" && r.Side == "client" && r.K == "header" {
			w.Violate("C02", "headers-not-available-with-first-message", "%s handler variant %d (%s): the caller has received the first response message but Header() is still blocked (the handler is still running)", shape, hv, w.Cfg)
		}
	}
	for _, r := range w.Env.Log.Records() {
		if r.RPC == "ht" && r.Side == "client" && r.K == "header" && r.RetSeq != 0 && r.Err == "" {
			if d := mdDiff(want, r.MD); d != "" {
				w.Violate("C02", "wrong-headers", "%s handler variant %d: Header() after the first message returned %s, handler set %s (%s)", shape, hv, mdString(r.MD), mdString(want), d)
			}
		}
	}
	w.Env.Signal("finish")
	w.Advance(time.Second)
	for _, r := range w.Env.Log.OpenOps() {
		w.Violate("C05", "op-stuck-in-clean-run", "operation %s %s of rpc %s still blocked", r.Side, r.K, r.RPC)
	}
	w.CheckDelivery()
	w.CheckOutcome()
	w.Finish()
}
