package h

// C10: graceful shutdown. In-flight RPCs of every shape and phase, shutdown
// initiated at every step boundary, 0-4 RPCs attempted afterwards with their
// frames interleaved (gate) with the in-flight ones, 0/1/3 tunnels, forward
// (InitiateShutdown) and reverse (GracefulStop, then Stop).

import (
	"context"
	"fmt"
	"math/rand"
	"time"

	"google.golang.org/grpc"
	"google.golang.org/grpc/codes"
	"google.golang.org/grpc/metadata"

	"github.com/jhump/grpctunnel"
	"github.com/jhump/grpctunnel/tunnelpb"
)

func init() {
	families["shutdown"] = famShutdown
	listers["C10"] = func(tier string, seed int64) []Case {
		var out []Case
		rng := rand.New(rand.NewSource(seed*811 + 10))
		reps := 1
		if tier == "thorough" {
			reps = 80
		}
		for r := 0; r < reps; r++ {
			for _, dir := range []string{"forward", "reverse"} {
				tunnels := []int{1}
				if dir == "reverse" {
					tunnels = []int{0, 1, 3}
				}
				for _, nt := range tunnels {
					for step := 0; step <= 6; step++ {
						for late := 0; late <= 4; late++ {
							for _, mode := range []string{"gated", "latency", "plain"} {
								if nt == 0 && (step > 0 || mode != "plain") {
									continue
								}
								cfg := WorldCfg{Dir: dir}
								if mode == "latency" {
									cfg.Latency = time.Millisecond
								}
								if (step+late)%4 == 3 {
									cfg.ClientNoFC, cfg.ServerNoFC = true, true
								}
								g := 0
								if mode == "gated" {
									g = 1
								}
								out = append(out, Case{Family: "shutdown", Seed: rng.Int63(), Cfg: cfg, P: map[string]int{"tunnels": nt, "step": step, "late": late, "gated": g, "stop": (step + late + r) % 2, "parksent": (step + late/2 + r) % 2}})
							}
						}
					}
				}
			}
		}
		return out
	}
}

func inflightSpecs() []*RPCSpec {
	trl := metadata.MD{"t": {"x"}}
	return []*RPCSpec{
		{ID: "fa", Method: "Bidi", UseTrailerOpt: true,
			Client:  []Op{{K: "open"}, {K: "send", N: 20000}, {K: "recv"}, {K: "sync", Name: "fin"}, {K: "send", N: 70000}, {K: "recv"}, {K: "close"}, {K: "recvall"}, {K: "trailer"}},
			Handler: []Op{{K: "recv"}, {K: "send", N: 30000}, {K: "recv"}, {K: "send", N: 100000}, {K: "recv"}, {K: "settrl", MD: trl}, {K: "ret"}}},
		{ID: "fb", Method: "ServerStream",
			Client:  []Op{{K: "open"}, {K: "send", N: 10}, {K: "close"}, {K: "recv"}, {K: "sync", Name: "fin"}, {K: "recvall"}, {K: "trailer"}},
			Handler: []Op{{K: "recv"}, {K: "send", N: 65536}, {K: "sync", Name: "fin"}, {K: "send", N: 65537}, {K: "send", N: 1}, {K: "settrl", MD: trl}, {K: "ret", Code: codes.NotFound, Msg: "scripted", Details: 1}}},
		{ID: "fc", Method: "Unary", UseTrailerOpt: true,
			Client:  []Op{{K: "invoke", N: 40000}},
			Handler: []Op{{K: "recv"}, {K: "sync", Name: "fin"}, {K: "send", N: 50000}, {K: "settrl", MD: trl}, {K: "ret"}}},
		{ID: "fd", Method: "ClientStream",
			Client:  []Op{{K: "open"}, {K: "send", N: 16384}, {K: "sync", Name: "fin"}, {K: "send", N: 90000}, {K: "close"}, {K: "recvall"}},
			Handler: []Op{{K: "recvall"}, {K: "send", N: 77}, {K: "ret"}}},
	}
}

func famShutdown(w *World, c *Case, rng *rand.Rand) {
	nt, step, late := c.p("tunnels", 1), c.p("step", 0), c.p("late", 0)
	gated := c.p("gated", 0) == 1
	w.SigExtra = fmt.Sprintf("nt%d/step%d/late%d/g%v/ps%d", nt, step, late, gated, c.p("parksent", 0))
	if c.p("parksent", 0) == 1 {
		// the goroutine starting an RPC is held right after its new_stream
		// frame went out, for longer than a round trip: the peer's answer (a
		// refusal, after shutdown) is processed before the caller continues
		ds := make([]time.Duration, 64)
		for i := range ds {
			if rng.Intn(3) != 0 {
				ds[i] = 5 * time.Millisecond
			}
		}
		w.installYield(&YieldPlan{Parks: map[string][]time.Duration{"client.newStream.sent": ds}})
	}
	var ch grpc.ClientConnInterface
	var rs *grpctunnel.ReverseTunnelServer
	var chans []grpctunnel.TunnelChannel
	if w.Cfg.Dir == "forward" {
		if err := w.Open(nil); err != nil {
			w.Violate("C11", "open-failed", "open: %v", err)
			w.Finish()
			return
		}
		ch = w.Ch
		chans = []grpctunnel.TunnelChannel{w.TCh}
	} else {
		w.Handler = w.NewHandler(w.Cfg.ClientNoFC, AffinityFromMD)
		tunnelpb.RegisterTunnelServiceServer(w.Conn, w.Handler.Service())
		w.Stub = tunnelpb.NewTunnelServiceClient(w.Conn)
		rs = grpctunnel.NewReverseTunnelServer(w.Stub, w.serverOpts()...)
		desc, impl := NewSvc(w.Env, "rev")
		rs.RegisterService(desc, impl)
		if nt == 0 {
			w.mu.Lock()
			w.RevSrvs = append(w.RevSrvs, rs)
			w.mu.Unlock()
		}
		for i := 0; i < nt; i++ {
			w.startServe(rs, w.RootCtx, fmt.Sprintf("rev-%d", i))
			w.Advance(10 * time.Millisecond)
		}
		// startServe appends rs once per call; keep a single entry for Finish()
		w.mu.Lock()
		w.RevSrvs = []*grpctunnel.ReverseTunnelServer{rs}
		w.mu.Unlock()
		chans = w.Handler.AllReverseTunnels()
		if len(chans) != nt {
			w.Violate("C12", "reverse-tunnels-not-registered", "%d of %d reverse tunnels registered", len(chans), nt)
			w.Finish()
			return
		}
		ch = w.Handler.AsChannel()
		w.Ch = nil
	}
	specs := inflightSpecs()
	if nt == 0 {
		specs = nil
	}
	if gated {
		w.Conn.SetGated(true)
	}
	// steps before the shutdown: start RPCs one at a time with some traffic in between
	started := 0
	for s := 0; s < step; s++ {
		if started < len(specs) {
			w.Env.StartRPC(context.Background(), ch, specs[started])
			started++
		}
		if gated {
			w.driveGate(rng, 3+rng.Intn(25))
		} else {
			w.Advance(time.Duration(rng.Intn(4)) * time.Millisecond)
		}
	}
	w.Wait()
	// in flight = handler already invoked when the shutdown call is issued
	inflight := map[string]bool{}
	for _, inv := range w.Env.Log.Invocations {
		inflight[inv.RPC] = true
	}
	// ---- initiate shutdown ----
	var gsDone chan struct{}
	if w.Cfg.Dir == "forward" {
		w.Handler.InitiateShutdown()
	} else {
		gsDone = make(chan struct{})
		go func() { rs.GracefulStop(); close(gsDone) }()
		w.Wait()
	}
	w.Stat("shutdown_runs", 1)
	w.Stat("shutdown_inflight_rpcs", len(inflight))
	// RPCs whose new_stream was on the wire during the call may go either way: remember them
	undecided := map[string]bool{}
	for i := 0; i < started; i++ {
		if !inflight[specs[i].ID] {
			undecided[specs[i].ID] = true
		}
	}
	// ---- RPCs attempted afterwards ----
	var lates []*RPCSpec
	shapes := []string{"Unary", "Bidi", "ServerStream", "ClientStream"}
	for i := 0; i < late; i++ {
		s := &RPCSpec{ID: fmt.Sprintf("late%d", i), Method: shapes[i%4]}
		switch s.Method {
		case "Unary":
			s.Client = []Op{{K: "invoke", N: 20000}}
			s.Handler = []Op{{K: "recv"}, {K: "send", N: 5}, {K: "ret"}}
		case "ServerStream":
			s.Client = []Op{{K: "open"}, {K: "send", N: 10}, {K: "close"}, {K: "recvall"}}
			s.Handler = []Op{{K: "recv"}, {K: "send", N: 5}, {K: "ret"}}
		default:
			s.Client = []Op{{K: "open"}, {K: "send", N: 40000}, {K: "close"}, {K: "recvall"}}
			s.Handler = []Op{{K: "recvall"}, {K: "send", N: 5}, {K: "ret"}}
		}
		// "every RPC subsequently started": also those naming a method or service that does not
		// exist, or a malformed name - they, too, are refused with Unavailable, not judged on their merits
		if (i+step)%3 == 2 {
			s.RawMethod = []string{"/verif.Svc/NoSuchMethod", "/no.such.Service/X", "no-slash-at-all", "/"}[(i+late+step)%4]
		}
		lates = append(lates, s)
		w.Env.StartRPC(context.Background(), ch, s)
		if gated {
			w.driveGate(rng, rng.Intn(10))
		}
	}
	if gated {
		w.driveGate(rng, 3000)
	} else {
		w.Advance(10 * time.Millisecond)
	}
	// GracefulStop must not have returned while in-flight RPCs are open
	openInflight := 0
	for _, r := range w.Env.Log.OpenOps() {
		if inflight[r.RPC] {
			openInflight++
		}
	}
	if gsDone != nil && openInflight > 0 {
		select {
		case <-gsDone:
			w.Violate("C10", "gracefulstop-returned-early", "GracefulStop returned while %d operation(s) of in-flight RPCs are still open", openInflight)
		default:
			w.Stat("gracefulstop_observed_waiting", 1)
		}
	}
	for _, tc := range chans {
		select {
		case <-tc.Done():
			w.Violate("C10", "tunnel-ended-during-drain", "a tunnel's Done() closed while in-flight RPCs were still running after graceful shutdown: %v", tc.Err())
		default:
		}
	}
	// ---- let the in-flight RPCs finish ----
	w.Env.Signal("fin")
	if gated {
		w.driveGate(rng, 6000)
		w.Conn.SetGated(false)
		for _, l := range w.Conn.Links() {
			l.ReleaseAll()
		}
	}
	w.Advance(time.Second)
	views := buildViews(w.Env)
	invoked := map[string]int{}
	for _, inv := range w.Env.Log.Invocations {
		invoked[inv.RPC]++
	}
	for _, s := range lates {
		w.Stat("shutdown_late_rpcs", 1)
		v := views[s.ID]
		var t *OpRec
		if v != nil {
			t = clientTerminal(v)
		}
		if t == nil {
			w.Violate("C10", "late-rpc-hangs", "RPC %s started after graceful shutdown has no terminal result", s.ID)
			continue
		}
		if nt == 0 {
			if t.Code != codes.Unavailable {
				w.Violate("C12", "no-tunnel-not-unavailable", "RPC with no reverse tunnel ended with %q", t.Err)
			}
			continue
		}
		if t.Code != codes.Unavailable {
			w.Violate("C10", "rpc-after-shutdown-not-unavailable", "RPC %s (%s) started after graceful shutdown ended with %q instead of Unavailable (%s)", s.ID, s.Method, t.Err, w.SigExtra)
		}
		if invoked[s.ID] != 0 {
			w.Violate("C10", "rpc-after-shutdown-invoked-handler", "RPC %s started after graceful shutdown reached a handler", s.ID)
		}
	}
	// in-flight RPCs: exactly their scripted outcome
	for id := range inflight {
		v := views[id]
		if v == nil || v.spec == nil {
			continue
		}
		w.Stat("shutdown_inflight_checked", 1)
		for _, r := range v.all {
			if r.RetSeq == 0 {
				w.Violate("C10", "inflight-rpc-did-not-finish", "in-flight RPC %s: op %s %s still blocked after shutdown (%s)", id, r.Side, r.K, w.SigExtra)
			}
		}
		t := clientTerminal(v)
		if t == nil || v.ret == nil {
			continue
		}
		got := t.Code
		if t.EOF || (t.K == "invoke" && t.Err == "") {
			got = codes.OK
		}
		if got != v.ret.Code {
			w.Violate("C10", "inflight-rpc-outcome-changed", "in-flight RPC %s ended with %v (%s), scripted %v (%s)", id, got, t.Err, v.ret.Code, w.SigExtra)
		}
	}
	for id := range undecided {
		v := views[id]
		if v == nil {
			continue
		}
		if t := clientTerminal(v); t != nil {
			got := t.Code
			if t.EOF || (t.K == "invoke" && t.Err == "") {
				got = codes.OK
			}
			if got != codes.Unavailable && (v.ret == nil || got != v.ret.Code) {
				w.Violate("C10", "racing-rpc-neither-outcome", "RPC %s raced with the shutdown call and ended with %v: neither Unavailable nor its scripted outcome", id, got)
			}
		}
	}
	// only the in-flight ones are complete by script; delivery/outcome oracles apply to every RPC that ran
	w.CheckDelivery()
	// ---- GracefulStop return ----
	if gsDone != nil {
		select {
		case <-gsDone:
			w.Stat("gracefulstop_returned_after_drain", 1)
		default:
			if nt > 0 {
				w.Violate("C10", "gracefulstop-blocked-after-drain", "GracefulStop has not returned although every in-flight RPC has finished (%d tunnel(s), %d in-flight RPC(s))", nt, len(inflight))
			} else {
				w.Violate("C10", "gracefulstop-blocked-without-tunnels", "GracefulStop with no tunnels did not return")
			}
			if c.p("stop", 0) == 1 {
				// GracefulStop followed by Stop at a later moment
				t0 := w.VT()
				stopRet := make(chan time.Duration, 1)
				go func() { rs.Stop(); stopRet <- w.VT() }()
				// a second Stop while the first one is still waiting (a deferred Stop plus a signal
				// handler's): it, too, returns only after every Serve call has returned
				stop2Ret := make(chan time.Duration, 1)
				go func() { rs.Stop(); stop2Ret <- w.VT() }()
				defer func() {
					select {
					case t2 := <-stop2Ret:
						if w.Cfg.Latency > 0 && t2-t0 < 2*w.Cfg.Latency {
							w.Violate("C10", "stop-returned-before-serve", "a second Stop, called while the first was waiting, returned after %v of virtual time; the tunnels need a round trip of %v to end", t2-t0, 2*w.Cfg.Latency)
						}
					default:
					}
				}()
				// an RPC started on the still-registered tunnel while Stop is under way (its
				// new_stream reaches the tunnel server after Stop half-closed, before the peer hangs up)
				w.Wait()
				as := &RPCSpec{ID: "afterstop", Method: []string{"Unary", "Bidi"}[late%2], Client: []Op{{K: "invoke", N: 100}}, Handler: []Op{{K: "recv"}, {K: "send", N: 5}, {K: "ret"}}}
				if as.Method == "Bidi" {
					as.Client = []Op{{K: "open"}, {K: "send", N: 100}, {K: "close"}, {K: "recvall"}}
					as.Handler = []Op{{K: "recvall"}, {K: "send", N: 5}, {K: "ret"}}
				}
				w.Env.StartRPC(context.Background(), ch, as)
				w.Advance(time.Second)
				w.Stat("shutdown_rpc_during_stop", 1)
				for _, inv := range w.Env.Log.Invocations {
					if inv.RPC == "afterstop" {
						w.Violate("C10", "rpc-after-shutdown-invoked-handler", "an RPC started after GracefulStop and Stop were called (while the tunnel was still registered) reached a handler")
					}
				}
				if v := buildViews(w.Env)["afterstop"]; v != nil {
					if t := clientTerminal(v); t == nil {
						w.Violate("C10", "late-rpc-hangs", "RPC started during Stop has no terminal result")
					} else if (t.K == "invoke" && t.Err == "") || (t.K == "recv" && t.EOF) {
						w.Violate("C10", "rpc-after-shutdown-not-unavailable", "an RPC started after GracefulStop and Stop were called succeeded")
					}
				}
				select {
				case t1 := <-stopRet:
					w.Stat("stop_after_gracefulstop", 1)
					if w.Cfg.Latency > 0 && t1-t0 < 2*w.Cfg.Latency {
						w.Violate("C10", "stop-returned-before-serve", "Stop returned after %v of virtual time; the tunnels need a round trip of %v to end", t1-t0, 2*w.Cfg.Latency)
					}
				default:
					w.Violate("C10", "stop-blocked", "Stop after GracefulStop did not return")
				}
			} else {
				// the peer hangs up: now it must return
				for _, tc := range chans {
					tc.Close()
				}
				w.Advance(time.Second)
			}
			select {
			case <-gsDone:
			default:
				w.Violate("C10", "gracefulstop-never-returns", "GracefulStop did not return even after the tunnels ended")
			}
		}
	}
	// ---- Stop: returns only after every Serve returned and handlers were cancelled ----
	if rs != nil && nt > 0 && c.p("stop", 0) == 0 {
		// fresh in-flight handler to be cancelled by Stop needs a live tunnel: only if tunnels are still up
	}
	for i := range w.Serves {
		sr := w.ServeState(i)
		if rs != nil && !sr.Returned {
			// tunnels may still be up in the forward case only
			w.Note("Serve %d has not returned at the end of the scenario", i)
		}
	}
	w.Finish()
}
