package h

// Families for C01 (delivery) — also the base workloads reused by C02, C06,
// C13, C14: "streams" (concurrent scripted RPCs of all shapes, boundary sizes,
// reader pacing) and "term" (every termination kind while receivers are
// blocked in Recv).

import (
	"fmt"
	"math/rand"
	"runtime"
	"strings"
	"sync/atomic"
	"time"
)

func init() {
	families["streams"] = famStreams
	families["term"] = famTerm
}

// famStreams: K concurrent RPCs, random shapes and sizes, run to completion.
func famStreams(w *World, c *Case, rng *rand.Rand) {
	if err := w.Open(genMD(rng, "open")); err != nil {
		w.Violate("C11", "open-failed", "opening the tunnel failed in configuration %s: %v", w.Cfg, err)
		w.Finish()
		return
	}
	k := 1 + rng.Intn(c.p("maxrpcs", 5))
	budget := c.p("budget", 3<<20)
	o := ScriptOpts{FlowControl: w.Cfg.RevisionOne(), MaxMsgs: c.p("maxmsgs", 5), MaxSize: c.p("maxsize", 1<<20+1), Pacing: []string{"eager", "lag", "mixed"}[rng.Intn(3)], Status: c.p("status", 1) == 1, Meta: c.p("meta", 1) == 1, BudgetLeft: &budget}
	if c.p("big", 0) == 1 {
		o.BigProb = 25
	}
	if !w.Cfg.RevisionOne() {
		// Without flow control a lagging consumer legitimately stalls the
		// receive loop; goroutines then queue on the carrier send mutex, which
		// synctest does not treat as durably blocked, so the virtual clock
		// could never advance to wake the consumer. Revision-zero runs
		// therefore use consumers that never sleep.
		o.Pacing = "eager"
	}
	var specs []*RPCSpec
	for i := 0; i < k; i++ {
		specs = append(specs, GenRPC(rng, fmt.Sprintf("r%d", i), o))
	}
	gated := c.p("gated", 0) == 1
	if gated {
		w.Conn.SetGated(true)
	}
	if w.Cfg.RevisionOne() && !gated && w.Cfg.CapFrames == 0 && !strings.HasPrefix(w.Cfg.Dir, "nested") && c.p("big", 0) == 0 && rng.Intn(2) == 0 {
		// Clean runs (no cancellation, no tear-down): nobody but the sending goroutine itself ever
		// wants the stream's write mutex, so the sender may be parked in virtual time between its
		// window load, its compare-and-swap and the emission, and window updates between their
		// add and their signal: compare-and-swap failures and zero-window waits then happen at
		// tunnel level, under the delivery oracle.
		plan := &YieldPlan{Parks: map[string][]time.Duration{}}
		for _, pt := range []string{"fc.send.loaded", "fc.send.beforeCAS", "fc.send.reserved", "fc.update.added", "fc.send.beforeWait", "fc.dequeue.beforeCredit"} {
			ds := make([]time.Duration, 4000)
			for i := range ds {
				if rng.Intn(3) == 0 {
					ds[i] = time.Duration(1+rng.Intn(40)) * time.Nanosecond
				}
			}
			plan.Parks[pt] = ds
		}
		// A goroutine about to put a window update on the carrier is held
		// too (recognised by its stack: the credit callbacks are closures of
		// createStream / allocateStream); such a goroutine holds no lock
		// another goroutine could want in a clean run.
		var cj atomic.Int64
		cj.Store(rng.Int63())
		plan.Fn = func(point string, n int) {
			if point != "carrier.send.beforeLock" {
				return
			}
			x := cj.Add(0x1e3779b97f4a7c15)
			if (x>>40)&3 != 0 {
				return
			}
			var pcs [24]uintptr
			fr := runtime.CallersFrames(pcs[:runtime.Callers(2, pcs[:])])
			for {
				f, more := fr.Next()
				if strings.Contains(f.Function, "createStream.func") || strings.Contains(f.Function, "allocateStream.func") {
					w.Stat("credit_sends_parked", 1)
					time.Sleep(time.Duration(1+(x>>50)&31) * time.Nanosecond)
					return
				}
				if !more {
					return
				}
			}
		}
		w.installYield(plan)
		w.Stat("streams_with_sender_parks", 1)
	}
	for _, s := range specs {
		w.Env.StartRPC(w.RootCtx, w.Ch, s)
		if gated {
			w.driveGate(rng, rng.Intn(15))
		} else if rng.Intn(2) == 0 {
			w.Wait()
		}
	}
	if gated {
		w.driveGate(rng, 20000)
		w.Conn.SetGated(false)
		for _, l := range w.Conn.Links() {
			l.ReleaseAll()
		}
	}
	w.Advance(time.Minute)
	for _, r := range w.Env.Log.OpenOps() {
		w.Violate("C05", "op-stuck-in-clean-run", "operation %s %s[%d] of rpc %s still blocked after a minute of virtual time in a run with no faults (cfg %s)", r.Side, r.K, r.Idx, r.RPC, w.Cfg)
	}
	w.CheckDelivery()
	w.CheckOutcome()
	w.CheckTables(w.TCh, 0, 0, true, "after all RPCs finished")
	w.CheckIdle("after all RPCs finished")
	w.Stat("rpcs", k)
	w.Finish()
}

// famTerm: put RPCs into blocked phases, then strike with a termination
// cause; judge every remaining Recv result (fabricated messages, D7).
func famTerm(w *World, c *Case, rng *rand.Rand) {
	if err := w.Open(nil); err != nil {
		w.Violate("C11", "open-failed", "opening the tunnel failed in configuration %s: %v", w.Cfg, err)
		w.Finish()
		return
	}
	cause := c.s("cause", "rpc-cancel")
	// RPC A: handler blocked in Recv (client never sends more)
	a := &RPCSpec{ID: "a", Method: "Bidi",
		Client:  []Op{{K: "open"}, {K: "send", N: genSize(rng, 70000)}, {K: "sync", Name: "go"}, {K: "recvall"}},
		Handler: []Op{{K: "recv"}, {K: "recvall"}, {K: "ret"}}}
	// RPC B: client blocked in Recv (handler never sends more)
	b := &RPCSpec{ID: "b", Method: "ServerStream",
		Client:  []Op{{K: "open"}, {K: "send", N: 10}, {K: "close"}, {K: "recvall"}},
		Handler: []Op{{K: "recv"}, {K: "send", N: genSize(rng, 70000)}, {K: "ctxwait"}, {K: "ret"}}}
	// RPC C: client-stream, handler blocked in Recv mid-stream with queued nothing
	cc := &RPCSpec{ID: "c", Method: "ClientStream",
		Client:  []Op{{K: "open"}, {K: "send", N: genSize(rng, 40000)}, {K: "send", N: genSize(rng, 40000)}, {K: "sync", Name: "go"}, {K: "recvall"}},
		Handler: []Op{{K: "recvall"}, {K: "ret"}}}
	specs := []*RPCSpec{a, b, cc}
	switch cause {
	case "rpc-deadline":
		for _, s := range specs {
			s.Timeout = 50 * time.Millisecond
		}
	case "handler-deadline":
		for _, s := range specs {
			s.GrpcTimeout = "50m"
		}
	}
	for i, s := range specs {
		switch cause {
		case "chan-close", "break", "root-cancel", "stop":
			// tunnel-level causes: one caller uses a context that can never be cancelled
			s.NeverCancel = i == int(c.Seed%3)
		}
		w.Env.StartRPC(w.RootCtx, w.Ch, s)
	}
	w.Advance(10 * time.Millisecond)
	switch cause {
	case "rpc-cancel":
		for _, s := range specs {
			s.cancel()
		}
	case "rpc-deadline", "handler-deadline":
		w.Advance(100 * time.Millisecond)
	case "chan-close":
		w.TCh.Close()
	case "break":
		w.Conn.Links()[0].Break()
	case "root-cancel":
		w.RootCancel()
	case "stop":
		if len(w.RevSrvs) > 0 {
			go w.RevSrvs[0].Stop()
		} else {
			w.TCh.Close()
		}
	}
	w.Advance(time.Second)
	w.Env.Signal("go")
	w.Advance(time.Second)
	w.CheckDelivery()
	w.Stat("term_runs", 1)
	w.Finish()
}

func init() {
	listers["C01"] = func(tier string, seed int64) []Case {
		var out []Case
		rng := rand.New(rand.NewSource(seed*7919 + 1))
		n := 240
		if tier == "thorough" {
			n = 24000
		}
		for i := 0; i < n; i++ {
			c := Case{Family: "streams", Seed: rng.Int63(), Cfg: pickCfg(rng)}
			if i%4 == 3 {
				// gate-chosen frame interleavings across up to 8 concurrent RPCs (needs an unbounded, non-nested, latency-free carrier)
				c.Cfg.Dir = []string{"forward", "reverse"}[rng.Intn(2)]
				c.Cfg.CapFrames, c.Cfg.Latency = 0, 0
				c.P = map[string]int{"gated": 1, "maxrpcs": 8, "maxsize": 140000, "budget": 1 << 20}
			}
			if i%3 == 1 {
				// a carrier that encodes a frame when it is delivered, not inside Send (in-process
				// channels do that): a frame must not change once it has been handed to the carrier
				c.Cfg.ByRef = true
			}
			out = append(out, c)
		}
		// multi-megabyte messages (up to 8 MiB + 1)
		nbig := 6
		if tier == "thorough" {
			nbig = 300
		}
		for i := 0; i < nbig; i++ {
			cfg := pickCfg(rng)
			cfg.CapFrames = 0
			out = append(out, Case{Family: "streams", Seed: rng.Int63(), Cfg: cfg, P: map[string]int{"maxsize": 8<<20 + 1, "budget": 40 << 20, "maxrpcs": 3, "maxmsgs": 3, "big": 1}})
		}
		causes := []string{"rpc-cancel", "rpc-deadline", "handler-deadline", "chan-close", "break", "root-cancel", "stop"}
		reps := 1
		if tier == "thorough" {
			reps = 40
		}
		for r := 0; r < reps; r++ {
			for _, cfg := range cfgAxes(allDirs, []string{"on", "bothnofc"}, []int{0}, []time.Duration{0, time.Millisecond}) {
				for _, cause := range causes {
					out = append(out, Case{Family: "term", Seed: rng.Int63(), Cfg: cfg, S: map[string]string{"cause": cause}})
				}
			}
		}
		return out
	}
}
