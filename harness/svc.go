package h

// Scripted service "verif.Svc" (hand-written ServiceDesc over BytesValue),
// self-describing payloads, scripted client / handler actors and the
// API-boundary operation log that the offline monitors judge.

import (
	"bytes"
	"context"
	"encoding/binary"
	"errors"
	"fmt"
	"io"
	"sort"
	"strings"
	"sync"
	"sync/atomic"
	"time"

	"google.golang.org/genproto/googleapis/rpc/errdetails"
	"google.golang.org/grpc"
	"google.golang.org/grpc/codes"
	"google.golang.org/grpc/metadata"
	"google.golang.org/grpc/peer"
	"google.golang.org/grpc/status"
	"google.golang.org/protobuf/proto"
	"google.golang.org/protobuf/types/known/emptypb"
	"google.golang.org/protobuf/types/known/wrapperspb"

	"github.com/jhump/grpctunnel"
)

// ---- payloads ----

func fnv64(parts ...uint64) uint64 {
	h := uint64(14695981039346656037)
	for _, p := range parts {
		for i := 0; i < 8; i++ {
			h ^= (p >> (8 * i)) & 0xff
			h *= 1099511628211
		}
	}
	return h
}

func strHash(s string) uint64 {
	h := uint64(14695981039346656037)
	for i := 0; i < len(s); i++ {
		h ^= uint64(s[i])
		h *= 1099511628211
	}
	return h
}

// GenPayload deterministically generates the idx-th payload of the given
// direction of an RPC. Every (rpc, dir, idx) gives different bytes.
func GenPayload(rpc string, dir int, idx int, size int) []byte {
	b := make([]byte, size)
	x := fnv64(strHash(rpc), uint64(dir), uint64(idx)) | 1
	i := 0
	for ; i+8 <= size; i += 8 {
		x ^= x << 13
		x ^= x >> 7
		x ^= x << 17
		binary.LittleEndian.PutUint64(b[i:], x)
	}
	for ; i < size; i++ {
		x ^= x << 13
		x ^= x >> 7
		x ^= x << 17
		b[i] = byte(x)
	}
	return b
}

const (
	dirReq  = 0
	dirResp = 1
)

// ---- ops, specs, log ----

// Op is one scripted step of an actor.
type Op struct {
	K       string        `json:"k"`
	N       int           `json:"n,omitempty"`    // size / count
	D       time.Duration `json:"d,omitempty"`    // sleep
	MD      metadata.MD   `json:"md,omitempty"`   // header / trailer
	Code    codes.Code    `json:"code,omitempty"` // return status
	Msg     string        `json:"msg,omitempty"`
	Details int           `json:"details,omitempty"`
	Name    string        `json:"name,omitempty"` // sync point
	// Shared: the handler passes one long-lived metadata value (the same map in every RPC of the
	// run, as an application does with a package-level "common headers" value) instead of a copy.
	Shared bool `json:"shared,omitempty"`
}

// RPCSpec scripts one RPC on both ends.
type RPCSpec struct {
	ID      string        `json:"id"`
	Method  string        `json:"method"` // Unary, ClientStream, ServerStream, Bidi
	ReqMD   metadata.MD   `json:"req_md,omitempty"`
	Timeout time.Duration `json:"timeout,omitempty"` // caller context deadline (0 = none)
	// GrpcTimeout, if set, is sent as a grpc-timeout header only (handler-only deadline).
	GrpcTimeout   string            `json:"grpc_timeout,omitempty"`
	UseHeaderOpt  bool              `json:"hdr_opt,omitempty"`
	UseTrailerOpt bool              `json:"trl_opt,omitempty"`
	UsePeerOpt    bool              `json:"peer_opt,omitempty"`
	UseChanOpt    bool              `json:"chan_opt,omitempty"`
	Creds         map[string]string `json:"creds,omitempty"`
	Creds2        map[string]string `json:"creds2,omitempty"` // a second PerRPCCredentials option
	NoOutgoingMD  bool              `json:"no_out_md,omitempty"`
	// Relay: both ends receive into a message type that declares none of the fields and keep the
	// content as unknown fields (schema-agnostic relay); not for Invoke.
	Relay bool `json:"relay,omitempty"`
	// FailCreds: "error" or "tls" - per-RPC credentials that make the RPC fail at its start.
	FailCreds string `json:"fail_creds,omitempty"`
	// NeverCancel: the RPC is issued with a context that can never be cancelled
	// (context.Background() plus values: Done() == nil), as plain client code often does.
	NeverCancel bool `json:"never_cancel,omitempty"`
	CtxCause    bool `json:"ctx_cause,omitempty"` // caller context created with WithCancelCause / WithTimeoutCause
	// RawMethod, if set (use "<empty>" for the empty string), replaces the full method path.
	RawMethod string `json:"raw_method,omitempty"`

	Client      []Op `json:"client"`
	ClientRecv  []Op `json:"client_recv,omitempty"`
	ClientHdr   []Op `json:"client_hdr,omitempty"` // third client goroutine (Header() callers)
	Handler     []Op `json:"handler"`
	HandlerRecv []Op `json:"handler_recv,omitempty"`

	// runtime
	done     chan struct{} // closed when the client actor has finished
	terminal atomic.Bool   // a terminal result has been returned to the application
	ch       grpc.ClientConnInterface
	ctx      context.Context
	cancel   context.CancelFunc
	stream   grpc.ClientStream
	hdrOpt   metadata.MD
	trlOpt   metadata.MD
	// second targets of the same kind on the same call (a wrapper or interceptor adding its own
	// option next to the application's): every target must be filled alike
	hdrOpt2  metadata.MD
	trlOpt2  metadata.MD
	chanOpt2 grpctunnel.TunnelChannel
	peerOpt  peer.Peer
	chanOpt  grpctunnel.TunnelChannel
	invoked  atomic.Int32
	reqIdx   atomic.Int32 // next request index to send
	respIdx  atomic.Int32
	cliRecvd atomic.Int32 // responses received by client
	hdlRecvd atomic.Int32 // requests received by handler
}

// OpRec is one logged operation at the API boundary.
type OpRec struct {
	Actor   string        `json:"actor"`
	RPC     string        `json:"rpc"`
	Side    string        `json:"side"` // client / handler
	K       string        `json:"k"`
	Idx     int           `json:"idx"`
	CallSeq int64         `json:"call_seq"`
	RetSeq  int64         `json:"ret_seq"` // 0 = still open
	CallVT  time.Duration `json:"call_vt"`
	RetVT   time.Duration `json:"ret_vt"`

	Size   int `json:"size,omitempty"`    // send: size submitted
	MsgIdx int `json:"msg_idx,omitempty"` // send: index submitted

	Err       string            `json:"err,omitempty"`
	Code      codes.Code        `json:"code,omitempty"`
	IsStatus  bool              `json:"is_status,omitempty"`
	EOF       bool              `json:"eof,omitempty"`
	GotSize   int               `json:"got_size,omitempty"`
	GotOK     bool              `json:"got_ok,omitempty"` // received payload equals the expected next payload
	GotNote   string            `json:"got_note,omitempty"`
	MD        metadata.MD       `json:"md,omitempty"`
	Details   int               `json:"details,omitempty"`
	StatusMsg string            `json:"status_msg,omitempty"`
	Extra     map[string]string `json:"extra,omitempty"`

	rawErr error
	pub    *OpRec // the copy stored in the log (actors mutate their private record freely; it is published under the log lock)
}

// Open reports whether the operation has been called and not yet returned.
func (r *OpRec) Open() bool { return r.RetSeq == 0 }

// OpLog is the API-boundary log.
type OpLog struct {
	mu          sync.Mutex
	recs        []*OpRec
	seq         *atomic.Int64
	start       time.Time
	Invocations []Invocation
}

// Invocation records one handler invocation.
type Invocation struct {
	RPC    string
	MD     metadata.MD // incoming request metadata as the handler saw it at entry
	MDOK   bool
	Method string
	Seq    int64
	VT     time.Duration
	N      int // how many times this rpc tag has been invoked including this one
}

func (l *OpLog) call(r *OpRec) *OpRec {
	l.mu.Lock()
	defer l.mu.Unlock()
	r.CallSeq = l.seq.Add(1)
	r.CallVT = time.Since(l.start)
	pub := new(OpRec)
	*pub = *r
	pub.pub = nil
	r.pub = pub
	l.recs = append(l.recs, pub)
	return r
}

func (l *OpLog) ret(r *OpRec, err error) {
	r.rawErr = err
	if err != nil {
		r.Err = err.Error()
		if err == io.EOF {
			r.EOF = true
		}
		if st, ok := status.FromError(err); ok {
			r.IsStatus = true
			r.Code = st.Code()
			r.StatusMsg = st.Message()
			r.Details = len(st.Proto().GetDetails())
		} else {
			r.Code = codes.Unknown
		}
	}
	l.mu.Lock()
	defer l.mu.Unlock()
	r.RetSeq = l.seq.Add(1)
	r.RetVT = time.Since(l.start)
	if r.pub != nil {
		pub := r.pub
		*pub = *r
		pub.pub = nil
	}
}

// Records returns a snapshot copy of the log.
func (l *OpLog) Records() []OpRec {
	l.mu.Lock()
	defer l.mu.Unlock()
	out := make([]OpRec, len(l.recs))
	for i, r := range l.recs {
		out[i] = *r
	}
	return out
}

// OpenOps returns the operations that are called and not returned.
func (l *OpLog) OpenOps() []OpRec {
	var out []OpRec
	for _, r := range l.Records() {
		if r.Open() {
			out = append(out, r)
		}
	}
	return out
}

// ---- the environment shared by actors ----

// Env holds the scripted specs, sync points and the log.
type Env struct {
	Seq  atomic.Int64
	Log  *OpLog
	Quit chan struct{}

	mu     sync.Mutex
	specs  map[string]*RPCSpec
	syncs  map[string]chan struct{}
	shared map[string]metadata.MD
	wg     sync.WaitGroup
	// Identity is what handlers of a given serving instance report
	Panics []string
	// Anomaly, if set, receives violations that the actors detect themselves.
	Anomaly func(prop, key, msg string)
}

// NewEnv creates an environment (inside the bubble, if any).
func NewEnv() *Env {
	e := &Env{Quit: make(chan struct{}), specs: map[string]*RPCSpec{}, syncs: map[string]chan struct{}{}}
	e.Log = &OpLog{seq: &e.Seq, start: time.Now()}
	return e
}

// appMD returns the metadata value a handler passes to the library for an op: a fresh copy, or
// (Op.Shared) the run's one long-lived value with that content.
func (e *Env) appMD(op Op) metadata.MD {
	if !op.Shared {
		return op.MD.Copy()
	}
	e.mu.Lock()
	defer e.mu.Unlock()
	if e.shared == nil {
		e.shared = map[string]metadata.MD{}
	}
	k := op.K + "/" + mdString(op.MD)
	md := e.shared[k]
	if md == nil {
		md = op.MD.Copy()
		e.shared[k] = md
	}
	return md
}

func (e *Env) syncChan(name string) chan struct{} {
	e.mu.Lock()
	defer e.mu.Unlock()
	c := e.syncs[name]
	if c == nil {
		c = make(chan struct{})
		e.syncs[name] = c
	}
	return c
}

// Signal releases every actor waiting (now or later) at the named sync point.
func (e *Env) Signal(name string) {
	c := e.syncChan(name)
	select {
	case <-c:
	default:
		close(c)
	}
}

// Shutdown releases all actors blocked in harness waits and waits for them.
func (e *Env) Shutdown() {
	close(e.Quit)
}

// WaitActors waits for all actor goroutines to finish.
func (e *Env) WaitActors() { e.wg.Wait() }

func (e *Env) spec(id string) *RPCSpec {
	e.mu.Lock()
	defer e.mu.Unlock()
	return e.specs[id]
}

func (e *Env) sleep(d time.Duration) {
	t := time.NewTimer(d)
	defer t.Stop()
	select {
	case <-t.C:
	case <-e.Quit:
	}
}

// ---- service descriptor ----

type svcImpl struct {
	env *Env
	// Ident distinguishes serving instances (which reverse tunnel server / handler answered).
	Ident string
}

// SvcServer is the handler type for the ServiceDesc.
type SvcServer interface {
	isSvc()
}

func (*svcImpl) isSvc() {}

const svcName = "verif.Svc"

// NewSvc returns the service descriptor and an implementation bound to env.
func NewSvc(env *Env, ident string) (*grpc.ServiceDesc, any) {
	impl := &svcImpl{env: env, Ident: ident}
	return &svcDesc, impl
}

var svcDesc = grpc.ServiceDesc{
	ServiceName: svcName,
	HandlerType: (*SvcServer)(nil),
	Methods: []grpc.MethodDesc{
		{MethodName: "Unary", Handler: unaryHandler},
	},
	Streams: []grpc.StreamDesc{
		{StreamName: "ClientStream", Handler: streamHandler("ClientStream"), ClientStreams: true},
		{StreamName: "ServerStream", Handler: streamHandler("ServerStream"), ServerStreams: true},
		{StreamName: "Bidi", Handler: streamHandler("Bidi"), ClientStreams: true, ServerStreams: true},
	},
	Metadata: "verif.proto",
}

var (
	descClientStream = &grpc.StreamDesc{StreamName: "ClientStream", ClientStreams: true}
	descServerStream = &grpc.StreamDesc{StreamName: "ServerStream", ServerStreams: true}
	descBidi         = &grpc.StreamDesc{StreamName: "Bidi", ClientStreams: true, ServerStreams: true}
)

func rpcTag(ctx context.Context) string {
	md, _ := metadata.FromIncomingContext(ctx)
	if v := md.Get("x-rpc"); len(v) > 0 {
		return v[0]
	}
	return ""
}

func (s *svcImpl) invoked(ctx context.Context, method string) (*RPCSpec, string) {
	tag := rpcTag(ctx)
	spec := s.env.spec(tag)
	n := 1
	if spec != nil {
		n = int(spec.invoked.Add(1))
	}
	l := s.env.Log
	inMD, inOK := metadata.FromIncomingContext(ctx)
	l.mu.Lock()
	l.Invocations = append(l.Invocations, Invocation{RPC: tag, MD: inMD.Copy(), MDOK: inOK, Method: method, Seq: l.seq.Add(1), VT: time.Since(l.start), N: n})
	l.mu.Unlock()
	return spec, tag
}

// handlerIO abstracts the unary and streaming handler surfaces.
type handlerIO struct {
	ctx        context.Context
	recv       func(m any) error
	send       func(m any) error // nil for unary
	setHeader  func(md metadata.MD) error
	sendHeader func(md metadata.MD) error
	setTrailer func(md metadata.MD)
	unaryResp  *wrapperspb.BytesValue
}

func unaryHandler(srv any, ctx context.Context, dec func(any) error, _ grpc.UnaryServerInterceptor) (any, error) {
	s := srv.(*svcImpl)
	spec, tag := s.invoked(ctx, "Unary")
	hio := &handlerIO{
		ctx:        ctx,
		recv:       dec,
		setHeader:  func(md metadata.MD) error { return grpc.SetHeader(ctx, md) },
		sendHeader: func(md metadata.MD) error { return grpc.SendHeader(ctx, md) },
		setTrailer: func(md metadata.MD) { _ = grpc.SetTrailer(ctx, md) },
	}
	if spec == nil {
		var in wrapperspb.BytesValue
		if err := dec(&in); err != nil {
			return nil, err
		}
		return &wrapperspb.BytesValue{}, nil
	}
	err := s.runHandler(spec, tag, hio)
	if err != nil {
		return nil, err
	}
	if hio.unaryResp == nil {
		hio.unaryResp = &wrapperspb.BytesValue{}
	}
	return hio.unaryResp, nil
}

func streamHandler(method string) grpc.StreamHandler {
	return func(srv any, stream grpc.ServerStream) error {
		s := srv.(*svcImpl)
		ctx := stream.Context()
		spec, tag := s.invoked(ctx, method)
		if spec == nil {
			for {
				var in wrapperspb.BytesValue
				if err := stream.RecvMsg(&in); err != nil {
					if err == io.EOF {
						return nil
					}
					return err
				}
			}
		}
		hio := &handlerIO{
			ctx:        ctx,
			recv:       stream.RecvMsg,
			send:       stream.SendMsg,
			setHeader:  stream.SetHeader,
			sendHeader: stream.SendHeader,
			setTrailer: stream.SetTrailer,
		}
		return s.runHandler(spec, tag, hio)
	}
}

func mkStatus(op Op) error {
	if op.Code == codes.OK {
		return nil
	}
	st := status.New(op.Code, op.Msg)
	for i := 0; i < op.Details; i++ {
		st2, err := st.WithDetails(&errdetails.ErrorInfo{Reason: fmt.Sprintf("detail-%d", i), Domain: op.Msg})
		if err == nil {
			st = st2
		}
	}
	return st.Err()
}

func (s *svcImpl) runHandler(spec *RPCSpec, tag string, hio *handlerIO) error {
	env := s.env
	if len(spec.HandlerRecv) > 0 {
		env.wg.Add(1)
		go func() {
			defer env.wg.Done()
			s.runHandlerOps(spec, "h2:"+tag, spec.HandlerRecv, hio)
		}()
	}
	return s.runHandlerOps(spec, "h:"+tag, spec.Handler, hio)
}

func handlerRecv(spec *RPCSpec, hio *handlerIO, in *wrapperspb.BytesValue) error {
	if spec.Relay {
		return relayRecv(hio.recv, in)
	}
	return hio.recv(in)
}

func (s *svcImpl) runHandlerOps(spec *RPCSpec, actor string, ops []Op, hio *handlerIO) (ret error) {
	env := s.env
	log := env.Log
	// one message value reused by every receive of this actor (legal gRPC usage:
	// RecvMsg has to reset it); pre-filled so that a receive which leaves it alone shows
	var in wrapperspb.BytesValue
	in.Value = []byte("stale-content-of-a-reused-message")
	for i, op := range ops {
		rec := &OpRec{Actor: actor, RPC: spec.ID, Side: "handler", K: op.K, Idx: i}
		switch op.K {
		case "recv":
			log.call(rec)
			err := handlerRecv(spec, hio, &in)
			if err == nil {
				checkPayload(rec, spec.ID, dirReq, int(spec.hdlRecvd.Add(1))-1, in.Value)
			}
			log.ret(rec, err)
		case "recvall":
			for {
				r := &OpRec{Actor: actor, RPC: spec.ID, Side: "handler", K: "recv", Idx: i}
				log.call(r)
				err := handlerRecv(spec, hio, &in)
				if err == nil {
					checkPayload(r, spec.ID, dirReq, int(spec.hdlRecvd.Add(1))-1, in.Value)
				}
				log.ret(r, err)
				if err != nil {
					break
				}
			}
		case "send":
			if hio.send == nil {
				// unary: the response is the return value
				idx := int(spec.respIdx.Add(1)) - 1
				hio.unaryResp = &wrapperspb.BytesValue{Value: GenPayload(spec.ID, dirResp, idx, op.N)}
				rec.Size, rec.MsgIdx = op.N, idx
				rec.K = "send-unary-resp"
				log.call(rec)
				log.ret(rec, nil)
				continue
			}
			idx := int(spec.respIdx.Add(1)) - 1
			rec.Size, rec.MsgIdx = op.N, idx
			msg := &wrapperspb.BytesValue{Value: GenPayload(spec.ID, dirResp, idx, op.N)}
			log.call(rec)
			err := hio.send(msg)
			log.ret(rec, err)
		case "sethdr":
			rec.MD = op.MD
			log.call(rec)
			if op.Name == "ctx" {
				// the grpc package-level helpers go through the ServerTransportStream in the context
				log.ret(rec, grpc.SetHeader(hio.ctx, env.appMD(op)))
			} else {
				log.ret(rec, hio.setHeader(env.appMD(op)))
			}
		case "sendhdr":
			rec.MD = op.MD
			log.call(rec)
			if op.Name == "ctx" {
				log.ret(rec, grpc.SendHeader(hio.ctx, env.appMD(op)))
			} else {
				log.ret(rec, hio.sendHeader(env.appMD(op)))
			}
		case "settrl":
			rec.MD = op.MD
			log.call(rec)
			if op.Name == "ctx" {
				_ = grpc.SetTrailer(hio.ctx, env.appMD(op))
			} else {
				hio.setTrailer(env.appMD(op))
			}
			log.ret(rec, nil)
		case "ret":
			rec.Code, rec.StatusMsg, rec.Details = op.Code, op.Msg, op.Details
			log.call(rec)
			log.ret(rec, nil)
			return mkStatus(op)
		case "ctxwait":
			log.call(rec)
			select {
			case <-hio.ctx.Done():
				log.ret(rec, hio.ctx.Err())
			case <-env.Quit:
				// stays open in the log: the context was never cancelled
				return status.Error(codes.Aborted, "harness quit")
			}
		case "sleep":
			env.sleep(op.D)
		case "sync":
			select {
			case <-env.syncChan(op.Name):
			case <-env.Quit:
				return status.Error(codes.Aborted, "harness quit")
			}
		case "signal":
			env.Signal(op.Name)
		case "panic":
			panic("scripted handler panic")
		case "ident":
			log.call(rec)
			rec.Extra = s.readIdentity(hio.ctx, op)
			if md, ok := metadata.FromIncomingContext(hio.ctx); ok {
				rec.MD = md.Copy()
			}
			log.ret(rec, nil)
		case "deadline":
			log.call(rec)
			rec.Extra = map[string]string{}
			if dl, ok := hio.ctx.Deadline(); ok {
				rec.Extra["deadline_ns"] = fmt.Sprint(int64(time.Until(dl)))
			} else {
				rec.Extra["deadline_ns"] = "none"
			}
			log.ret(rec, nil)
		default:
			panic("unknown handler op " + op.K)
		}
	}
	return nil
}

type ctxValKey struct{}

func (s *svcImpl) readIdentity(ctx context.Context, op Op) map[string]string {
	out := map[string]string{"ident": s.Ident}
	tmd, ok := grpctunnel.TunnelMetadataFromIncomingContext(ctx)
	out["tunnel_md"] = mdString(tmd)
	out["tunnel_md_ok"] = fmt.Sprint(ok)
	if p, ok := peer.FromContext(ctx); ok && p.Addr != nil {
		out["peer"] = p.Addr.String()
	}
	if v, ok := ctx.Value(ctxValKey{}).(string); ok {
		out["ctxval"] = v
	}
	if op.N == 1 {
		// hostile reader: mutate what the accessor returned
		for k, v := range tmd {
			for i := range v {
				v[i] = "MUTATED"
			}
			tmd[k+"-x"] = []string{"added"}
		}
		tmd["injected"] = []string{"x"}
	}
	return out
}

func mdString(md metadata.MD) string {
	if md == nil {
		return "<nil>"
	}
	keys := make([]string, 0, len(md))
	for k := range md {
		keys = append(keys, k)
	}
	sort.Strings(keys)
	var b bytes.Buffer
	for _, k := range keys {
		fmt.Fprintf(&b, "%s=%q;", k, md[k])
	}
	return b.String()
}

func checkPayload(rec *OpRec, rpc string, dir int, idx int, got []byte) {
	rec.GotSize = len(got)
	rec.MsgIdx = idx
	rec.GotOK = bytes.Equal(got, GenPayload(rpc, dir, idx, len(got)))
	if !rec.GotOK {
		rec.Extra = map[string]string{"sum": fmt.Sprintf("%016x", sum64(got))}
	}
}

func sum64(b []byte) uint64 {
	h := uint64(14695981039346656037)
	for _, c := range b {
		h ^= uint64(c)
		h *= 1099511628211
	}
	return h
}

// ---- client actor ----

type staticCreds map[string]string

func (c staticCreds) GetRequestMetadata(ctx context.Context, uri ...string) (map[string]string, error) {
	return c, nil
}
func (c staticCreds) RequireTransportSecurity() bool { return false }

// failingCreds are per-RPC credentials that cannot be used: GetRequestMetadata
// fails ("error") or they insist on transport security ("tls"), which a tunnel
// does not claim to offer. The RPC must fail at its start - after the library
// has already taken a stream id for it.
type failingCreds string

func (c failingCreds) GetRequestMetadata(ctx context.Context, uri ...string) (map[string]string, error) {
	if c == "error" {
		return nil, errors.New("credentials unavailable (scripted)")
	}
	return map[string]string{"authorization": "never-sent"}, nil
}
func (c failingCreds) RequireTransportSecurity() bool { return c == "tls" }

func methodPath(m string) string { return "/" + svcName + "/" + m }

func (spec *RPCSpec) path() string {
	switch spec.RawMethod {
	case "":
		return methodPath(spec.Method)
	case "<empty>":
		return ""
	}
	return spec.RawMethod
}

// StartRPC launches the client actor(s) of spec on channel ch, under parent context.
func (e *Env) StartRPC(parent context.Context, ch grpc.ClientConnInterface, spec *RPCSpec) {
	e.mu.Lock()
	e.specs[spec.ID] = spec
	e.mu.Unlock()
	spec.ch = ch
	// the option targets are variables the caller may have used for an earlier call: whatever they
	// hold must be replaced by this call's (possibly empty) metadata
	stale := func() metadata.MD { return metadata.MD{"stale-from-an-earlier-call": {"x"}} }
	spec.hdrOpt, spec.hdrOpt2, spec.trlOpt, spec.trlOpt2 = stale(), stale(), stale(), stale()
	ctx := parent
	if spec.NeverCancel && spec.Timeout == 0 && !spec.CtxCause {
		ctx = context.Background()
	}
	if !spec.NoOutgoingMD {
		md := metadata.MD{}
		for k, v := range spec.ReqMD {
			md[k] = append([]string(nil), v...)
		}
		md.Set("x-rpc", spec.ID)
		if spec.GrpcTimeout != "" {
			parts := strings.Split(spec.GrpcTimeout, "\x1f")
			for i := range parts {
				if parts[i] == "\x1e" { // an explicitly empty header value
					parts[i] = ""
				}
			}
			md.Set("grpc-timeout", parts...)
		}
		ctx = metadata.NewOutgoingContext(ctx, md)
	}
	// the caller's context may be any of the standard library's flavours, including those that carry a custom cause
	switch {
	case spec.Timeout > 0 && spec.CtxCause:
		spec.ctx, spec.cancel = context.WithTimeoutCause(ctx, spec.Timeout, errors.New("request budget used up (custom cause)"))
	case spec.Timeout > 0:
		spec.ctx, spec.cancel = context.WithTimeout(ctx, spec.Timeout)
	case spec.CtxCause:
		c2, cancelCause := context.WithCancelCause(ctx)
		spec.ctx, spec.cancel = c2, func() { cancelCause(errors.New("caller lost interest (custom cause)")) }
	case spec.NeverCancel:
		spec.ctx, spec.cancel = ctx, func() {}
	default:
		spec.ctx, spec.cancel = context.WithCancel(ctx)
	}
	spec.done = make(chan struct{})
	e.wg.Add(1)
	go func() {
		defer e.wg.Done()
		defer close(spec.done)
		e.runClientOps(spec, "c:"+spec.ID, spec.Client)
		// the caller's last act, once the RPC is over and nothing of it will be read again: write
		// into every piece of metadata the library handed to it (single-actor RPCs only)
		if spec.terminal.Load() && len(spec.ClientRecv) == 0 && len(spec.ClientHdr) == 0 {
			// what the call-option targets hold now that the RPC is over (every shape, not only Invoke)
			rec := &OpRec{Actor: "c:" + spec.ID, RPC: spec.ID, Side: "client", K: "opts", Idx: len(spec.Client)}
			e.Log.call(rec)
			e.captureOpts(rec, spec)
			e.Log.ret(rec, nil)
			scribble(spec.hdrOpt, spec.ID)
			scribble(spec.trlOpt, spec.ID)
			scribble(spec.hdrOpt2, spec.ID)
			scribble(spec.trlOpt2, spec.ID)
			if spec.stream != nil {
				if md, err := spec.stream.Header(); err == nil {
					scribble(md, spec.ID)
				}
				scribble(spec.stream.Trailer(), spec.ID)
			}
		}
	}()
}

func (spec *RPCSpec) callOpts() []grpc.CallOption {
	var opts []grpc.CallOption
	if spec.UseHeaderOpt {
		opts = append(opts, grpc.Header(&spec.hdrOpt2), grpc.Header(&spec.hdrOpt))
	}
	if spec.UseTrailerOpt {
		opts = append(opts, grpc.Trailer(&spec.trlOpt2), grpc.Trailer(&spec.trlOpt))
	}
	if spec.UsePeerOpt {
		opts = append(opts, grpc.Peer(&spec.peerOpt))
	}
	if spec.UseChanOpt {
		opts = append(opts, grpctunnel.WithTunnelChannel(&spec.chanOpt2), grpctunnel.WithTunnelChannel(&spec.chanOpt))
	}
	if spec.Creds != nil {
		opts = append(opts, grpc.PerRPCCredentials(staticCreds(spec.Creds)))
	}
	if spec.Creds2 != nil {
		opts = append(opts, grpc.PerRPCCredentials(staticCreds(spec.Creds2)))
	}
	if spec.FailCreds != "" {
		opts = append(opts, grpc.PerRPCCredentials(failingCreds(spec.FailCreds)))
	}
	return opts
}

func (e *Env) runClientOps(spec *RPCSpec, actor string, ops []Op) {
	log := e.Log
	// one message value reused by every receive of this actor (see runHandlerOps)
	in := &wrapperspb.BytesValue{Value: []byte("stale-content-of-a-reused-message")}
	for i, op := range ops {
		rec := &OpRec{Actor: actor, RPC: spec.ID, Side: "client", K: op.K, Idx: i}
		switch op.K {
		case "invoke":
			idx := int(spec.reqIdx.Add(1)) - 1
			rec.Size, rec.MsgIdx = op.N, idx
			req := &wrapperspb.BytesValue{Value: GenPayload(spec.ID, dirReq, idx, op.N)}
			resp := wrapperspb.BytesValue{Value: []byte("stale-content-of-a-reused-message")}
			log.call(rec)
			err := spec.ch.Invoke(spec.ctx, spec.path(), req, &resp, spec.callOpts()...)
			if err == nil {
				checkPayload(rec, spec.ID, dirResp, int(spec.cliRecvd.Add(1))-1, resp.Value)
				rec.MsgIdx = idx
			}
			e.captureOpts(rec, spec)
			log.ret(rec, err)
		case "open":
			var desc *grpc.StreamDesc
			switch spec.Method {
			case "ClientStream":
				desc = descClientStream
			case "ServerStream":
				desc = descServerStream
			case "Bidi":
				desc = descBidi
			case "Unary":
				desc = &grpc.StreamDesc{StreamName: "Unary"}
			default:
				desc = &grpc.StreamDesc{StreamName: spec.Method, ClientStreams: true, ServerStreams: true}
			}
			log.call(rec)
			st, err := spec.ch.NewStream(spec.ctx, desc, spec.path(), spec.callOpts()...)
			spec.stream = st
			log.ret(rec, err)
			if err != nil {
				return
			}
			if len(spec.ClientRecv) > 0 {
				e.wg.Add(1)
				go func() {
					defer e.wg.Done()
					e.runClientOps(spec, "c2:"+spec.ID, spec.ClientRecv)
				}()
			}
			if len(spec.ClientHdr) > 0 {
				e.wg.Add(1)
				go func() {
					defer e.wg.Done()
					e.runClientOps(spec, "c3:"+spec.ID, spec.ClientHdr)
				}()
			}
		case "send":
			idx := int(spec.reqIdx.Add(1)) - 1
			rec.Size, rec.MsgIdx = op.N, idx
			msg := &wrapperspb.BytesValue{Value: GenPayload(spec.ID, dirReq, idx, op.N)}
			log.call(rec)
			err := spec.stream.SendMsg(msg)
			log.ret(rec, err)
		case "close":
			log.call(rec)
			log.ret(rec, spec.stream.CloseSend())
		case "recv":
			e.clientRecv(spec, rec, in)
		case "recvall":
			for {
				r := &OpRec{Actor: actor, RPC: spec.ID, Side: "client", K: "recv", Idx: i}
				if err := e.clientRecv(spec, r, in); err != nil {
					break
				}
			}
		case "header":
			log.call(rec)
			md, err := spec.stream.Header()
			rec.MD = md.Copy()
			log.ret(rec, err)
		case "trailer":
			log.call(rec)
			rec.MD = spec.stream.Trailer().Copy()
			if spec.terminal.Load() {
				// option targets may only be read after the completion signal
				e.captureOpts(rec, spec)
			}
			log.ret(rec, nil)
		case "cancel":
			log.call(rec)
			spec.cancel()
			log.ret(rec, nil)
		case "sleep":
			e.sleep(op.D)
		case "sync":
			select {
			case <-e.syncChan(op.Name):
			case <-e.Quit:
				return
			}
		case "signal":
			e.Signal(op.Name)
		case "chanctx":
			log.call(rec)
			rec.Extra = map[string]string{}
			if spec.stream != nil {
				tc := grpctunnel.TunnelChannelFromContext(spec.stream.Context())
				rec.Extra["chan"] = fmt.Sprintf("%p", tc)
				tmd, ok := grpctunnel.TunnelMetadataFromOutgoingContext(spec.stream.Context())
				rec.Extra["tunnel_md"] = mdString(tmd)
				rec.Extra["tunnel_md_ok"] = fmt.Sprint(ok)
				if op.N == 1 {
					for k, v := range tmd {
						for j := range v {
							v[j] = "MUTATED"
						}
						tmd[k+"-x"] = []string{"added"}
					}
				}
			}
			log.ret(rec, nil)
		default:
			panic("unknown client op " + op.K)
		}
	}
}

// scribble writes into metadata the library handed to the caller (as a proxy that
// annotates what it forwards does): what a caller does to its own copy must never
// show up in any other RPC.
func scribble(md metadata.MD, id string) {
	if md != nil {
		md.Set("x-scribbled-by-caller", id)
	}
}

func (e *Env) captureOpts(rec *OpRec, spec *RPCSpec) {
	if rec.Extra == nil {
		rec.Extra = map[string]string{}
	}
	if spec.UseHeaderOpt {
		rec.Extra["hdr_opt"] = mdString(spec.hdrOpt)
	}
	if spec.UseTrailerOpt {
		rec.Extra["trl_opt"] = mdString(spec.trlOpt)
	}
	if spec.UsePeerOpt {
		rec.Extra["peer_opt"] = "<none>"
		if spec.peerOpt.Addr != nil {
			rec.Extra["peer_opt"] = spec.peerOpt.Addr.String()
		}
	}
	if spec.UseChanOpt {
		rec.Extra["chan_opt"] = fmt.Sprintf("%p", spec.chanOpt)
	}
	if e.Anomaly != nil {
		if spec.UseHeaderOpt && mdString(spec.hdrOpt) != mdString(spec.hdrOpt2) {
			e.Anomaly("C02", "option-targets-differ:header", fmt.Sprintf("rpc %s: two grpc.Header targets on one call were filled differently: %s vs %s", spec.ID, mdString(spec.hdrOpt2), mdString(spec.hdrOpt)))
		}
		if spec.UseTrailerOpt && mdString(spec.trlOpt) != mdString(spec.trlOpt2) {
			e.Anomaly("C02", "option-targets-differ:trailer", fmt.Sprintf("rpc %s: two grpc.Trailer targets on one call were filled differently: %s vs %s", spec.ID, mdString(spec.trlOpt2), mdString(spec.trlOpt)))
		}
		if spec.UseChanOpt && spec.chanOpt != spec.chanOpt2 {
			e.Anomaly("C17", "with-tunnel-channel-wrong", fmt.Sprintf("rpc %s: two WithTunnelChannel targets on one call were filled differently: %p vs %p", spec.ID, spec.chanOpt2, spec.chanOpt))
		}
	}
}

// relayRecv receives like a schema-agnostic relay or recorder does: into a message type that
// declares none of the fields (emptypb.Empty), keeping what it got as unknown fields. Re-marshalled,
// that must be exactly what was sent; the payload is then extracted for the delivery oracle.
func relayRecv(recv func(m any) error, in *wrapperspb.BytesValue) error {
	var e emptypb.Empty
	if err := recv(&e); err != nil {
		return err
	}
	b, err := proto.Marshal(&e)
	if err != nil {
		return err
	}
	in.Reset()
	return proto.Unmarshal(b, in)
}

func (e *Env) clientRecv(spec *RPCSpec, rec *OpRec, in *wrapperspb.BytesValue) error {
	e.Log.call(rec)
	var err error
	if spec.Relay {
		err = relayRecv(func(m any) error { return spec.stream.RecvMsg(m) }, in)
	} else {
		err = spec.stream.RecvMsg(in)
	}
	if err == nil {
		checkPayload(rec, spec.ID, dirResp, int(spec.cliRecvd.Add(1))-1, in.Value)
	} else {
		spec.terminal.Store(true)
	}
	e.Log.ret(rec, err)
	return err
}
