package h

// C03: independence of RPCs sharing a tunnel. Bystander RPCs run a fixed
// script; one disturber of every kind is started at a PRNG-chosen point; frame
// interleavings are varied by the gate (unbounded carrier) or by bounded
// carrier capacity. The bystanders' results must be exactly the scripted ones
// and the tunnel must stay up.

import (
	"context"
	"math/rand"
	"strings"
	"time"

	"google.golang.org/grpc/codes"
)

var disturberKinds = []string{
	"handler-error", "unknown-service", "unknown-method", "malformed-method", "empty-method", "leading-slash-only",
	"cancel-mid", "cancel-early", "caller-deadline", "handler-deadline", "handler-deadline-never-reads", "caller-deadline-never-reads",
	"handler-never-reads", "caller-never-reads", "both-never-read", "many-never-read",
	"after-shutdown",
	"creds-error", "creds-need-tls", "creds-error-after-cancel",
}

func init() {
	families["disturb"] = famDisturb
	listers["C03"] = func(tier string, seed int64) []Case {
		var out []Case
		rng := rand.New(rand.NewSource(seed*3571 + 3))
		reps := 6
		if tier == "thorough" {
			reps = 300
		}
		for r := 0; r < reps; r++ {
			for _, kind := range disturberKinds {
				for _, dir := range allDirs {
					for _, mode := range []string{"gated", "cap1", "cap4", "free"} {
						if strings.HasPrefix(dir, "nested") && mode != "free" {
							continue // gate / bounded capacity on the outer carrier of a nested tunnel: see sanitizeCfg
						}
						for _, fc := range []bool{true, false} {
							// (caller-deadline-never-reads: without flow control the cancel frame itself waits
							// behind the unread requests of its own RPC)
							needsFC := kind == "handler-never-reads" || kind == "caller-never-reads" || kind == "both-never-read" || kind == "many-never-read" || kind == "caller-deadline-never-reads"
							if needsFC && !fc {
								continue // head-of-line blocking is expected without flow control
							}
							if !fc && mode != "free" && mode != "gated" {
								continue
							}
							cfg := WorldCfg{Dir: dir}
							if !fc {
								cfg.ClientNoFC, cfg.ServerNoFC = true, true
							}
							switch mode {
							case "cap1":
								cfg.CapFrames = 1
							case "cap4":
								cfg.CapFrames = 4
							}
							g := 0
							if mode == "gated" {
								g = 1
							}
							out = append(out, Case{Family: "disturb", Seed: rng.Int63(), Cfg: cfg, P: map[string]int{"gated": g}, S: map[string]string{"kind": kind}})
						}
					}
				}
			}
		}
		// raw-peer disturbers (unsupported revision, malformed names, overruns, id games on another stream)
		for _, c := range listers["C09"](tier, seed) {
			if c.Family == "rawconv" {
				switch c.S["dev"] {
				case "rev-unknown", "method-empty", "method-noslash", "method-slash", "method-unknown-service", "method-unknown-method", "kind-to-cancel", "empty", "size-max", "data-plus1", "win-max":
					out = append(out, c)
				}
			}
			if c.Family == "rawsrv" && (c.S["dev"] == "overrun" || c.S["dev"] == "settings-on-stream" || c.S["dev"] == "empty-frame" || c.S["dev"] == "envelope-inside") {
				out = append(out, c)
			}
		}
		// unencodable strings (probe of the known finding)
		for _, c := range listers["C02"](tier, seed) {
			if c.Family == "nonutf8" {
				out = append(out, c)
			}
		}
		return out
	}
}

func bystanders() []*RPCSpec {
	return []*RPCSpec{
		{ID: "by1", Method: "Bidi",
			Client:  []Op{{K: "open"}, {K: "send", N: 20000}, {K: "recv"}, {K: "send", N: 70000}, {K: "recv"}, {K: "send", N: 5}, {K: "recv"}, {K: "close"}, {K: "recvall"}},
			Handler: []Op{{K: "recv"}, {K: "send", N: 30000}, {K: "recv"}, {K: "send", N: 6}, {K: "recv"}, {K: "send", N: 100000}, {K: "recv"}, {K: "ret"}}},
		{ID: "by2", Method: "ServerStream",
			Client:  []Op{{K: "open"}, {K: "send", N: 10}, {K: "close"}, {K: "recv"}, {K: "sleep", D: 5 * time.Millisecond}, {K: "recv"}, {K: "sleep", D: 5 * time.Millisecond}, {K: "recvall"}},
			Handler: []Op{{K: "recv"}, {K: "send", N: 65536}, {K: "send", N: 65537}, {K: "send", N: 1}, {K: "send", N: 40000}, {K: "ret"}}},
		{ID: "by3", Method: "ClientStream",
			Client:  []Op{{K: "open"}, {K: "send", N: 16384}, {K: "send", N: 90000}, {K: "send", N: 0}, {K: "close"}, {K: "recvall"}},
			Handler: []Op{{K: "recv"}, {K: "sleep", D: 3 * time.Millisecond}, {K: "recvall"}, {K: "send", N: 77}, {K: "ret"}}},
	}
}

var bystanderMsgs = map[string]int{"by1": 3, "by2": 4, "by3": 1, "by4": 1}

func famDisturb(w *World, c *Case, rng *rand.Rand) {
	if err := w.Open(nil); err != nil {
		w.Violate("C11", "open-failed", "open: %v", err)
		w.Finish()
		return
	}
	kind := c.s("kind", "handler-error")
	w.SigExtra = kind
	gated := c.p("gated", 0) == 1
	fc := w.Cfg.RevisionOne()
	bys := bystanders()
	if !fc {
		// no sleeping consumers without flow control (see famStreams)
		for _, b := range bys {
			var ops []Op
			for _, op := range b.Client {
				if op.K != "sleep" {
					ops = append(ops, op)
				}
			}
			b.Client = ops
			ops = nil
			for _, op := range b.Handler {
				if op.K != "sleep" {
					ops = append(ops, op)
				}
			}
			b.Handler = ops
		}
	}
	flood := []Op{}
	for i := 0; i < 8; i++ {
		flood = append(flood, Op{K: "send", N: 30000})
	}
	var ds []*RPCSpec
	mk := func(id string) *RPCSpec { return &RPCSpec{ID: id} }
	d := mk("d")
	switch kind {
	case "handler-error":
		d.Method = "Bidi"
		d.Client = []Op{{K: "open"}, {K: "send", N: 40000}, {K: "recvall"}}
		d.Handler = []Op{{K: "recv"}, {K: "send", N: 20000}, {K: "ret", Code: codes.Internal, Msg: "boom", Details: 2}}
	case "unknown-service":
		d.Method, d.RawMethod = "Unary", "/nosuch.Service/M"
		d.Client = []Op{{K: "invoke", N: 20000}}
	case "unknown-method":
		d.Method, d.RawMethod = "Bidi", "/verif.Svc/Nope"
		d.Client = []Op{{K: "open"}, {K: "send", N: 40000}, {K: "close"}, {K: "recvall"}}
	case "malformed-method":
		d.Method, d.RawMethod = "Bidi", "no-slash-at-all"
		d.Client = []Op{{K: "open"}, {K: "send", N: 40000}, {K: "close"}, {K: "recvall"}}
	case "empty-method":
		d.Method, d.RawMethod = "Unary", "<empty>"
		d.Client = []Op{{K: "invoke", N: 10}}
	case "leading-slash-only":
		d.Method, d.RawMethod = "Unary", "/"
		d.Client = []Op{{K: "invoke", N: 10}}
	case "cancel-mid":
		d.Method = "Bidi"
		d.Client = []Op{{K: "open"}, {K: "send", N: 70000}, {K: "recv"}, {K: "cancel"}, {K: "recvall"}}
		d.Handler = []Op{{K: "recv"}, {K: "send", N: 70000}, {K: "send", N: 70000}, {K: "recvall"}, {K: "ret"}}
	case "cancel-early":
		d.Method = "ClientStream"
		d.Client = []Op{{K: "open"}, {K: "cancel"}, {K: "send", N: 100}, {K: "recvall"}}
		d.Handler = []Op{{K: "recvall"}, {K: "ret"}}
	case "caller-deadline":
		d.Method, d.Timeout = "Bidi", 2*time.Millisecond
		d.Client = []Op{{K: "open"}, {K: "send", N: 50000}, {K: "recvall"}}
		d.Handler = []Op{{K: "recv"}, {K: "ctxwait"}, {K: "ret", Code: codes.DeadlineExceeded}}
	case "handler-deadline":
		d.Method, d.GrpcTimeout = "Bidi", "2m"
		d.Client = []Op{{K: "open"}, {K: "send", N: 50000}, {K: "recvall"}}
		d.Handler = []Op{{K: "recv"}, {K: "ctxwait"}, {K: "send", N: 5}, {K: "ret", Code: codes.DeadlineExceeded, Msg: "late"}}
	case "handler-deadline-never-reads":
		// a deadline only the serving side knows expires while the handler is busy and does not read
		// (and goes on being busy): with or without flow control, whatever was held up behind the
		// RPC's unread requests flows again once the deadline has passed
		d.Method, d.GrpcTimeout = "ClientStream", "50m"
		d.Client = append([]Op{{K: "open"}}, flood...)
		d.Handler = []Op{{K: "sync", Name: "never"}, {K: "ret"}}
	case "caller-deadline-never-reads":
		d.Method, d.Timeout = "ClientStream", 50*time.Millisecond
		d.Client = append([]Op{{K: "open"}}, flood...)
		d.Handler = []Op{{K: "sync", Name: "never"}, {K: "ret"}}
	case "handler-never-reads":
		d.Method = "ClientStream"
		d.Client = append([]Op{{K: "open"}}, flood...)
		d.Handler = []Op{{K: "ctxwait"}, {K: "ret"}}
	case "caller-never-reads":
		d.Method = "ServerStream"
		d.Client = []Op{{K: "open"}, {K: "send", N: 1}, {K: "close"}, {K: "sync", Name: "never"}}
		d.Handler = append([]Op{{K: "recv"}}, append(flood, Op{K: "ret"})...)
	case "both-never-read":
		d.Method = "Bidi"
		d.Client = append([]Op{{K: "open"}}, flood...)
		d.Handler = append(append([]Op{}, flood...), Op{K: "ctxwait"}, Op{K: "ret"})
	case "many-never-read":
		for i := 0; i < 5; i++ {
			x := mk("d" + string(rune('0'+i)))
			if i%2 == 0 {
				x.Method = "ClientStream"
				x.Client = append([]Op{{K: "open"}}, flood...)
				x.Handler = []Op{{K: "ctxwait"}, {K: "ret"}}
			} else {
				x.Method = "ServerStream"
				x.Client = []Op{{K: "open"}, {K: "send", N: 1}, {K: "close"}, {K: "sync", Name: "never"}}
				x.Handler = append([]Op{{K: "recv"}}, append(flood, Op{K: "ret"})...)
			}
			ds = append(ds, x)
		}
	case "after-shutdown":
		d.Method = "Bidi"
		d.Client = []Op{{K: "open"}, {K: "send", N: 40000}, {K: "close"}, {K: "recvall"}}
		d.Handler = []Op{{K: "recvall"}, {K: "ret"}}
	case "creds-error", "creds-need-tls":
		// fails on the client after a stream id was taken for it: the ids of later RPCs skip one
		d.Method, d.FailCreds = "Unary", map[string]string{"creds-error": "error", "creds-need-tls": "tls"}[kind]
		d.Client = []Op{{K: "invoke", N: 10}}
		for i := 0; i < 2; i++ {
			x := mk("d" + string(rune('0'+i)))
			x.Method, x.FailCreds = "Bidi", d.FailCreds
			x.Client = []Op{{K: "open"}, {K: "send", N: 10}, {K: "close"}, {K: "recvall"}}
			ds = append(ds, x)
		}
		ds = append(ds, d)
	case "creds-error-after-cancel":
		// two disturbers cooperate: one RPC is cancelled by its caller, and while the peer's answer
		// to that (a close frame for a stream the client has already disposed of) is under way,
		// another RPC is refused locally because its credentials fail
		x := mk("dc")
		x.Method = "Bidi"
		x.Client = []Op{{K: "open"}, {K: "send", N: 500}, {K: "recv"}, {K: "cancel"}, {K: "signal", Name: "dc-cancelled"}, {K: "recvall"}}
		x.Handler = []Op{{K: "recv"}, {K: "send", N: 500}, {K: "recvall"}, {K: "ret"}}
		d.Method, d.FailCreds = "Unary", "error"
		d.Client = []Op{{K: "sync", Name: "dc-cancelled"}, {K: "invoke", N: 10}}
		ds = append(ds, x, d)
	case "handler-panics":
		d.Method = "Bidi"
		d.Client = []Op{{K: "open"}, {K: "send", N: 40000}, {K: "recvall"}}
		d.Handler = []Op{{K: "recv"}, {K: "panic"}}
	}
	if len(ds) == 0 {
		ds = []*RPCSpec{d}
	}
	for _, x := range ds {
		x.CtxCause = rng.Intn(3) == 0
	}
	if gated {
		w.Conn.SetGated(true)
	}
	// start: bystanders and disturber in a PRNG-chosen order, with a PRNG-chosen amount of traffic in between
	order := rng.Perm(len(bys) + 1)
	if kind == "after-shutdown" {
		// the bystanders must be in flight (handler invoked) before the shutdown is initiated
		order = []int{0, 1, 2, len(bys)}
	}
	for _, i := range order {
		if i == len(bys) {
			if kind == "after-shutdown" {
				if gated {
					w.driveGate(rng, 12+rng.Intn(20))
				}
				w.Wait()
				// shut down the serving end of the tunnel that carries the RPCs
				switch w.Cfg.Dir {
				case "forward", "nested-ff":
					w.Handler.InitiateShutdown()
				case "nested-fr":
					w.Inner.InitiateShutdown()
				case "nested-rr":
					go w.RevSrvs[1].GracefulStop()
					w.Wait()
				default: // reverse, nested-rf
					go w.RevSrvs[0].GracefulStop()
					w.Wait()
				}
			}
			for _, x := range ds {
				w.Env.StartRPC(context.Background(), w.Ch, x)
			}
		} else {
			w.Env.StartRPC(context.Background(), w.Ch, bys[i])
		}
		if gated {
			w.driveGate(rng, rng.Intn(12))
		} else if rng.Intn(2) == 0 {
			w.Wait()
		}
	}
	if gated {
		w.driveGate(rng, 5000)
		w.Conn.SetGated(false)
		for _, l := range w.Conn.Links() {
			l.ReleaseAll()
		}
	}
	w.Advance(time.Minute)
	w.Stat("disturb_runs", 1)
	// ---- bystander oracle ----
	views := buildViews(w.Env)
	for _, b := range bys {
		v := views[b.ID]
		if kind == "after-shutdown" {
			// only bystanders whose handler had been invoked when shutdown began are in flight
			inflight := false
			for _, inv := range w.Env.Log.Invocations {
				if inv.RPC == b.ID {
					inflight = true
				}
			}
			if !inflight {
				continue
			}
		}
		w.Stat("bystanders_checked", 1)
		if v == nil {
			w.Violate("C03", "bystander-never-ran", "bystander %s has no operations", b.ID)
			continue
		}
		for _, r := range v.all {
			if r.RetSeq == 0 {
				w.Violate("C03", "bystander-delayed-indefinitely", "disturber %s (%s): bystander %s op %s %s[%d] still blocked after a minute of virtual time", kind, w.Cfg, b.ID, r.Side, r.K, r.Idx)
			}
		}
		t := clientTerminal(v)
		if t == nil || !t.EOF {
			es := "<none>"
			if t != nil {
				es = t.Err
			}
			w.Violate("C03", "bystander-failed", "disturber %s (%s): bystander %s ended with %s instead of OK", kind, w.Cfg, b.ID, es)
			continue
		}
		got := 0
		for _, r := range v.cliRecvs {
			if r.RetSeq != 0 && r.Err == "" {
				got++
				if !r.GotOK {
					w.Violate("C03", "bystander-corrupted", "disturber %s: bystander %s received a corrupted message", kind, b.ID)
				}
			}
		}
		if got != bystanderMsgs[b.ID] {
			w.Violate("C03", "bystander-corrupted", "disturber %s: bystander %s received %d messages, scripted %d", kind, b.ID, got, bystanderMsgs[b.ID])
		}
	}
	select {
	case <-w.TCh.Done():
		w.Violate("C03", "tunnel-ended-by-rpc", "disturber %s (%s) ended the tunnel: %v", kind, w.Cfg, w.TCh.Err())
	default:
	}
	if kind == "after-shutdown" {
		// the refused RPC must not take the tunnel down: a bystander-like RPC cannot be started now, so only the tunnel is judged
		dv := views["d"]
		if dv != nil {
			if t := clientTerminal(dv); t == nil || t.Code != codes.Unavailable {
				es := "<none>"
				if t != nil {
					es = t.Err
				}
				w.Violate("C10", "rpc-after-shutdown-not-unavailable", "RPC started after graceful shutdown ended with %s", es)
			}
		}
	}
	w.CheckDelivery()
	w.Env.Signal("never")
	w.Finish()
}
