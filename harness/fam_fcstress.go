package h

// fcstress (E3, free-running): the private sender/receiver pair under real
// parallelism and maximal contention - one-byte sends against one-byte credits,
// no parks - followed by an end-state probe of the sender's window: after
// everything was consumed exactly one full window, and not a byte more, can be
// sent without credit. Catches lost or duplicated window arithmetic that has
// no yield point inside (non-atomic read-modify-write).

import (
	"context"
	"fmt"
	"math/rand"
	"sync"
	"sync/atomic"
	"time"

	"github.com/jhump/grpctunnel"
)

func init() {
	families["fcstress"] = famFCStress
	freeFamilies["fcstress"] = true
	for _, id := range []string{"C05", "C06"} {
		id := id
		prev := listers[id]
		listers[id] = func(tier string, seed int64) []Case {
			out := prev(tier, seed)
			rng := rand.New(rand.NewSource(seed*313 + 56))
			n := 16
			if tier == "thorough" {
				n = 400
			}
			for i := 0; i < n; i++ {
				out = append(out, Case{Family: "fcstress", Seed: rng.Int63(), Cfg: WorldCfg{Dir: "forward"}, P: map[string]int{"rounds": 6}})
			}
			return out
		}
	}
}

func famFCStress(w *World, c *Case, rng *rand.Rand) {
	for r := 0; r < c.p("rounds", 6); r++ {
		w.fcStressRound(rng)
	}
	w.Finish()
}

func (w *World) fcStressRound(rng *rand.Rand) {
	window := []uint32{64, 1024, 65536}[rng.Intn(3)]
	total := 150000 + rng.Intn(100000)
	msg := 1 + rng.Intn(3)
	ctx, cancel := context.WithCancel(context.Background())
	defer cancel()
	var sent, credited, consumed, rejected atomic.Int64
	var maxOut atomic.Int64
	dataQ := make(chan []byte, 1<<14)
	credQ := make(chan uint32, 1<<14)
	snd := grpctunnel.VerifNewSender(ctx, window, func(data []byte, total uint32, first bool) error {
		s := sent.Add(int64(len(data)))
		// credited is read after sent was raised: un-credited bytes can only be over-estimated by
		// credit that is concurrently being applied, never under-estimated... so judge only the
		// end state strictly and keep this as a statistic
		if o := s - credited.Load(); o > maxOut.Load() {
			maxOut.Store(o)
		}
		select {
		case dataQ <- append([]byte(nil), data...):
		case <-ctx.Done():
			return ctx.Err()
		}
		return nil
	})
	rcv := grpctunnel.VerifNewReceiver(func(n uint32) {
		select {
		case credQ <- n:
		case <-ctx.Done():
		}
	}, window)
	var wg sync.WaitGroup
	stopConsumer := make(chan struct{})
	wg.Add(3)
	go func() { // data wire
		defer wg.Done()
		for {
			select {
			case b := <-dataQ:
				if err := rcv.Accept(b); err != nil {
					rejected.Add(1)
				}
			case <-ctx.Done():
				return
			}
		}
	}()
	go func() { // credit wire
		defer wg.Done()
		for {
			select {
			case n := <-credQ:
				credited.Add(int64(n))
				snd.UpdateWindow(n)
			case <-ctx.Done():
				return
			}
		}
	}()
	consumerDone := make(chan struct{})
	go func() { // consumer
		defer wg.Done()
		defer close(consumerDone)
		for {
			select {
			case <-stopConsumer:
				return
			default:
			}
			b, ok := rcv.Dequeue()
			if !ok {
				return
			}
			consumed.Add(int64(len(b)))
			if consumed.Load() >= int64(total) {
				return
			}
		}
	}()
	// producer: tiny messages, as fast as possible
	sendErr := make(chan error, 1)
	go func() {
		buf := make([]byte, msg)
		var err error
		for n := 0; n < total && err == nil; n += msg {
			if total-n < msg {
				err = snd.Send(buf[:total-n])
			} else {
				err = snd.Send(buf)
			}
		}
		sendErr <- err
	}()
	deadline := time.After(20 * time.Second)
	tick := time.NewTicker(20 * time.Millisecond)
	defer tick.Stop()
wait:
	for {
		select {
		case err := <-sendErr:
			if err != nil {
				w.Violate("C05", "fcstress-send-failed", "send failed: %v", err)
				return
			}
			break wait
		case <-tick.C:
			if rejected.Load() > 0 {
				w.Violate("C06", "sender-exceeds-window", "flow-control stress (window %d): the receiver rejected a chunk of a sender that only ever got credit for consumed bytes (sent %d, credited %d)", window, sent.Load(), credited.Load())
				cancel()
				return
			}
			continue
		case <-deadline:
			break wait
		}
	}
	select {
	case <-sendErr:
	default:
	}
	if sent.Load() < int64(total) {
		w.Violate("C05", "fcstress-sender-stranded", "flow-control stress (window %d, %d-byte sends): sender stranded after %d of %d bytes (credited %d, consumed %d)", window, msg, sent.Load(), total, credited.Load(), consumed.Load())
		cancel()
		return
	}
	select {
	case <-consumerDone:
	case <-time.After(10 * time.Second):
		w.Violate("C05", "fcstress-consumer-starved", "consumer received %d of %d bytes", consumed.Load(), total)
		return
	}
	// wait until all credit has been applied
	for i := 0; i < 3000 && credited.Load() < int64(total); i++ {
		time.Sleep(time.Millisecond)
	}
	w.Stat("fcstress_rounds", 1)
	w.Stat("fcstress_bytes", total)
	if rejected.Load() > 0 {
		w.Violate("C06", "sender-exceeds-window", "flow-control stress (window %d): the receiver rejected %d chunk(s) of a sender that only ever got credit for consumed bytes", window, rejected.Load())
	}
	if credited.Load() != int64(total) {
		w.Violate("C05", "fcstress-credit-lost", "credit applied %d of %d consumed bytes", credited.Load(), total)
		return
	}
	// end-state probe: nobody consumes now. Exactly one window can be sent; one more byte must block.
	probe := make(chan error, 1)
	go func() { probe <- snd.Send(make([]byte, window)) }()
	select {
	case err := <-probe:
		if err != nil {
			w.Violate("C05", "fcstress-probe-failed", "probe send failed: %v", err)
			return
		}
	case <-time.After(10 * time.Second):
		w.Violate("C05", "fcstress-window-not-restored", "flow-control stress (window %d, %d bytes in %d-byte sends): after everything was consumed and credited a full window can no longer be sent (credit was lost)", window, total, msg)
		return
	}
	extra := make(chan error, 1)
	go func() { extra <- snd.Send([]byte{1}) }()
	select {
	case err := <-extra:
		if err == nil {
			w.Violate("C06", "sender-exceeds-window", "flow-control stress (window %d, %d bytes in %d-byte sends): after a full window of un-credited data the sender still emitted one more byte: its window was inflated by concurrent window arithmetic", window, total, msg)
		}
	case <-time.After(30 * time.Millisecond):
		// blocked, as it must be
	}
	cancel()
	rcv.Cancel()
	wg.Wait()
	_ = fmt.Sprint
}
