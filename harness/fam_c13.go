package h

// writerace (C13, free-running with real-time steps): a stream is finished
// from the tunnel server's receive loop (client cancel) exactly while its
// handler is inside a carrier send of its first frames - the carrier is bounded
// to one frame and gated so that the send cannot complete until the driver
// says so. The wire monitor then judges the emitted frame sequence (headers at
// most once and before any message, exactly one close, nothing after it).

import (
	"context"
	"fmt"
	"math/rand"
	"sync/atomic"
	"time"
)

func init() {
	families["writerace"] = famWriteRace
	freeFamilies["writerace"] = true
}

// writeRaceCases is appended to the C13 case list by fam_union.go.
func writeRaceCases(tier string, seed int64) []Case {
	var out []Case
	rng := rand.New(rand.NewSource(seed*1301 + 13))
	n := 32
	if tier == "thorough" {
		n = 1200
	}
	for i := 0; i < n; i++ {
		cfg := WorldCfg{Dir: []string{"forward", "reverse"}[i%2], CapFrames: 1}
		if i%8 == 7 {
			cfg.ClientNoFC, cfg.ServerNoFC = true, true
		}
		out = append(out, Case{Family: "writerace", Seed: rng.Int63(), Cfg: cfg, P: map[string]int{"variant": (i / 2) % 4}})
	}
	return out
}

func famWriteRace(w *World, c *Case, rng *rand.Rand) {
	if err := w.Open(nil); err != nil {
		w.Violate("C11", "open-failed", "open: %v", err)
		w.Finish()
		return
	}
	variant := c.p("variant", 0)
	w.Tap.mu.Lock()
	w.Tap.Keep = true
	w.Tap.mu.Unlock()
	w.Conn.SetGated(true)
	// frames towards the tunnel server always flow; frames from it are held by the driver
	toServer, fromServer := C2S, S2C
	if w.Cfg.Dir == "reverse" {
		toServer, fromServer = S2C, C2S
	}
	var stop atomic.Bool
	pump := make(chan struct{})
	go func() {
		defer close(pump)
		for !stop.Load() {
			for _, l := range w.Conn.Links() {
				l.Release(toServer, 100)
			}
			time.Sleep(100 * time.Microsecond)
		}
	}()
	step := func() { time.Sleep(3 * time.Millisecond) }
	// event-based synchronisation (bounded polling) so that a slow machine still reaches the state
	waitOpen := func(rpc, side, k string) bool {
		for i := 0; i < 3000; i++ {
			for _, r := range w.Env.Log.Records() {
				if r.RPC == rpc && r.Side == side && r.K == k && r.RetSeq == 0 {
					return true
				}
			}
			time.Sleep(time.Millisecond)
		}
		return false
	}
	// Y fills the held direction: its handler's first frame occupies the single slot
	y := &RPCSpec{ID: "y", Method: "Bidi", Client: []Op{{K: "open"}, {K: "send", N: 5}, {K: "recvall"}}, Handler: []Op{{K: "recv"}, {K: "send", N: 50}, {K: "recv"}, {K: "ret"}}}
	w.Env.StartRPC(context.Background(), w.Ch, y)
	waitOpen("y", "handler", "recv") // y's handler has written its response and waits for more
	step()
	// X: the handler's first write (implicit headers + message) now blocks inside the carrier send
	// (the handler writes before it reads: a read would first have to send a window update,
	// which would block in the carrier instead of the write under test)
	x := &RPCSpec{ID: "x", Method: "Bidi", Client: []Op{{K: "open"}, {K: "recvall"}}}
	switch variant {
	case 0:
		x.Handler = []Op{{K: "send", N: 60}, {K: "ctxwait"}, {K: "ret"}}
	case 1:
		x.Handler = []Op{{K: "sendhdr"}, {K: "send", N: 60}, {K: "ctxwait"}, {K: "ret"}}
	case 2:
		x.Handler = []Op{{K: "send", N: 20000}, {K: "send", N: 5}, {K: "ctxwait"}, {K: "ret"}}
	default:
		x.Handler = []Op{{K: "ret"}} // the handler's own finish races the cancel
	}
	w.Env.StartRPC(context.Background(), w.Ch, x)
	if variant != 3 {
		waitOpen("x", "handler", map[int]string{0: "send", 1: "sendhdr", 2: "send"}[variant])
	}
	step()
	// the client cancels X: the cancel frame flows to the server, whose receive loop finishes the stream
	x.cancel()
	step()
	// now let the held frames go
	w.Conn.SetGated(false)
	for _, l := range w.Conn.Links() {
		l.Release(fromServer, 1000)
		l.ReleaseAll()
	}
	step()
	y.cancel()
	step()
	stop.Store(true)
	<-pump
	w.Stat("writerace_runs", 1)
	// record the server's emitted frame kinds for stream x (evidence sample / debugging)
	if l, id, ok := w.Wire.StreamByTag("x"); ok {
		seq := ""
		w.Tap.mu.Lock()
		for _, e := range w.Tap.Events {
			if e.Link == l && e.Kind == "emit" {
				if f := e.S2CFrame(); f != nil && f.StreamId == id {
					seq += fmt.Sprintf("%T ", f.Frame)[len("*tunnelpb.ServerToClient_"):]
				}
			}
		}
		w.Tap.mu.Unlock()
		w.SigExtra = seq
		w.Note("server frames of x: %s", seq)
	}
	w.Finish()
}
