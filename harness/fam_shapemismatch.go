package h

// shapemismatch: library <-> library, but the caller's idea of the call shape
// differs from the method the server runs (a stub generated from another
// version of the service, or a generic client): a unary / client-streaming call
// (non-streaming response) reaches a handler that answers with no, two or many
// messages and then keeps going. The caller must not be told the call
// succeeded (C16); once the caller's side has failed the RPC locally the other
// end must be told - the handler's context is cancelled and neither stream table
// keeps an entry (C14); nothing hangs (C04) and the tunnel survives (C03).

import (
	"context"
	"fmt"
	"math/rand"
	"time"
)

func init() {
	families["shapemismatch"] = famShapeMismatch
	add := func(id string, quickReps, thoroughReps int) {
		prev := listers[id]
		listers[id] = func(tier string, seed int64) []Case {
			out := prev(tier, seed)
			rng := rand.New(rand.NewSource(seed*877 + 1616))
			reps := quickReps
			if tier == "thorough" {
				reps = thoroughReps
			}
			for r := 0; r < reps; r++ {
				for _, dir := range allDirs {
					for _, callerShape := range []string{"Unary", "ClientStream"} {
						for _, nresp := range []int{0, 2, 3, 6} {
							for _, via := range []string{"invoke", "stream"} {
								if via == "invoke" && callerShape != "Unary" {
									continue
								}
								cfg := WorldCfg{Dir: dir}
								if rng.Intn(3) == 0 {
									cfg.ClientNoFC, cfg.ServerNoFC = true, true
								}
								out = append(out, Case{Family: "shapemismatch", Seed: rng.Int63(), Cfg: cfg, S: map[string]string{"caller": callerShape, "via": via}, P: map[string]int{"nresp": nresp, "big": rng.Intn(2), "empty": rng.Intn(2)}})
							}
						}
					}
				}
			}
			return out
		}
	}
	add("C16", 1, 25)
	add("C14", 1, 25)
}

func famShapeMismatch(w *World, c *Case, rng *rand.Rand) {
	if err := w.Open(nil); err != nil {
		w.Violate("C11", "open-failed", "opening the tunnel failed in configuration %s: %v", w.Cfg, err)
		w.Finish()
		return
	}
	caller, via, nresp := c.s("caller", "Unary"), c.s("via", "invoke"), c.p("nresp", 2)
	w.SigExtra = fmt.Sprintf("%s/%s/%d", caller, via, nresp)
	// the server side runs a streaming handler: nresp responses, then it waits for its context
	hd := []Op{{K: "recv"}}
	for i := 0; i < nresp; i++ {
		n := 50 + 10*i
		if c.p("big", 0) == 1 && i == 1 {
			n = 40000
		}
		if c.p("empty", 0) == 1 && i == 0 {
			n = 0 // an empty first response (zero bytes on the wire) is a response all the same
		}
		hd = append(hd, Op{K: "send", N: n})
	}
	hd = append(hd, Op{K: "ctxwait"}, Op{K: "ret"})
	s := &RPCSpec{ID: "mm", Method: caller, RawMethod: "/verif.Svc/Bidi", Handler: hd}
	if via == "invoke" {
		s.Client = []Op{{K: "invoke", N: 10}}
	} else {
		s.Client = []Op{{K: "open"}, {K: "send", N: 10}, {K: "close"}, {K: "recvall"}}
	}
	by := &RPCSpec{ID: "by", Method: "Unary", Client: []Op{{K: "invoke", N: 10}}, Handler: []Op{{K: "recv"}, {K: "send", N: 5}, {K: "ret"}}}
	w.Env.StartRPC(context.Background(), w.Ch, s)
	w.Advance(time.Second)
	v := buildViews(w.Env)["mm"]
	t := clientTerminal(v)
	if t == nil {
		if nresp == 0 {
			// no response and a handler that keeps running: the call legitimately stays open; end it
			s.cancel()
			w.Advance(time.Second)
		} else {
			w.Violate("C04", "op-hangs:client:"+via, "shapemismatch %s: the caller is still blocked a second after the handler sent %d responses", w.SigExtra, nresp)
		}
	} else if (t.K == "invoke" && t.Err == "") || (t.K == "recv" && t.EOF && false) {
		w.Violate("C16", "non-streaming-response-count-reported-success", "shapemismatch %s: the caller of a method with a non-streaming response was told the call succeeded although the peer sent %d responses and has not finished", w.SigExtra, nresp)
	}
	if via == "stream" && nresp >= 2 {
		// the generated wrappers call RecvMsg once more after the first message: that call must fail
		ok := 0
		for _, r := range v.cliRecvs {
			if r.RetSeq != 0 && r.Err == "" {
				ok++
			}
		}
		if ok > 1 {
			w.Violate("C16", "caller-received-several-responses", "shapemismatch %s: the caller of a method with a non-streaming response received %d messages", w.SigExtra, ok)
		}
		// the first RecvMsg of such a call is its completion (that is how CloseAndRecv and the unary
		// wrappers use it): with a second response already sent it must not report success
		for _, r := range v.cliRecvs {
			if r.RetSeq != 0 {
				if r.Err == "" {
					w.Violate("C16", "non-streaming-response-count-reported-success", "shapemismatch %s: the first RecvMsg of a call with a non-streaming response returned a message and a nil error although the peer sent %d responses", w.SigExtra, nresp)
				}
				break
			}
		}
	}
	// the caller's side has failed or ended the RPC: the other end must have been told
	w.Advance(time.Second)
	for _, r := range w.Env.Log.OpenOps() {
		if r.RPC == "mm" && r.Side == "handler" && r.K == "ctxwait" {
			w.Violate("C14", "handler-left-running-after-caller-finished", "shapemismatch %s: the caller's side finished the RPC (%v) but the handler's context was never cancelled: the server keeps its goroutine and table entry", w.SigExtra, terminalString(t))
		}
	}
	w.CheckTables(w.TCh, 0, 0, true, "after a call whose shape did not match the handler")
	// the tunnel still works
	w.Env.StartRPC(context.Background(), w.Ch, by)
	w.Advance(time.Second)
	if bt := clientTerminal(buildViews(w.Env)["by"]); bt == nil || bt.Err != "" {
		w.Violate("C03", "bystander-failed", "shapemismatch %s: an RPC after the mismatched call failed", w.SigExtra)
	}
	w.Stat("shapemismatch_runs", 1)
	w.Finish()
}

func terminalString(t *OpRec) string {
	if t == nil {
		return "<cancelled by the caller>"
	}
	if t.Err == "" {
		return "ok"
	}
	return t.Err
}
