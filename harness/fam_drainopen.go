package h

// drainopen: a new forward tunnel is opened while the tunnel service handler is draining
// (InitiateShutdown was called, the network server still accepts calls). Both ends advertise the
// settings exchange, so it must take place: Start returns with a tunnel on the configured
// revision (C11), every RPC on it is refused with Unavailable without reaching a handler (C10),
// and closing it leaves nothing behind. Legacy variants (one side not negotiating) likewise.

import (
	"context"
	"fmt"
	"math/rand"
	"time"

	"google.golang.org/grpc/codes"

	"github.com/jhump/grpctunnel"
	"github.com/jhump/grpctunnel/tunnelpb"
)

func init() { families["drainopen"] = famDrainOpen }

func drainOpenCases(tier string, seed int64) []Case {
	var out []Case
	rng := rand.New(rand.NewSource(seed*389 + 21))
	reps := 1
	if tier == "thorough" {
		reps = 10
	}
	for r := 0; r < reps; r++ {
		for _, dir := range []string{"forward"} {
			for _, fc := range allFCs {
				cfg := WorldCfg{Dir: dir}
				switch fc {
				case "cnofc":
					cfg.ClientNoFC = true
				case "snofc":
					cfg.ServerNoFC = true
				case "bothnofc":
					cfg.ClientNoFC, cfg.ServerNoFC = true, true
				case "legacy":
					cfg.StripReq, cfg.StripResp = true, true
				}
				out = append(out, Case{Family: "drainopen", Seed: rng.Int63(), Cfg: sanitizeCfg(cfg), P: map[string]int{"before": r % 2}})
			}
		}
	}
	return out
}

func famDrainOpen(w *World, c *Case, rng *rand.Rand) {
	if err := w.Open(nil); err != nil {
		w.Violate("C11", "open-failed", "open: %v", err)
		w.Finish()
		return
	}
	w.SigExtra = fmt.Sprintf("before%d", c.p("before", 0))
	if c.p("before", 0) == 1 {
		// an RPC on the tunnel opened before the shutdown, still in flight across it
		w.Env.StartRPC(context.Background(), w.Ch, &RPCSpec{ID: "old", Method: "Bidi", Client: []Op{{K: "open"}, {K: "send", N: 10}, {K: "recv"}, {K: "sync", Name: "fin"}, {K: "close"}, {K: "recvall"}},
			Handler: []Op{{K: "recv"}, {K: "send", N: 5}, {K: "recvall"}, {K: "ret"}}})
		w.Advance(10 * time.Millisecond)
	}
	w.Handler.InitiateShutdown()
	var stub tunnelpb.TunnelServiceClient = w.Stub
	if w.Cfg.Dir == "nested-ff" {
		stub = tunnelpb.NewTunnelServiceClient(w.Outer)
	}
	type res struct {
		ch  grpctunnel.TunnelChannel
		err error
	}
	done := make(chan res, 1)
	ctx, cancel := context.WithCancel(w.RootCtx)
	defer cancel()
	go func() {
		ch, err := grpctunnel.NewChannel(stub, w.clientOpts()...).Start(ctx)
		done <- res{ch, err}
	}()
	w.Advance(time.Second)
	w.Stat("drainopen_runs", 1)
	var r res
	select {
	case r = <-done:
	default:
		w.Violate("C11", "start-hangs-while-draining", "a tunnel opened while the handler is draining (%s): Start has not returned; the settings exchange both ends advertised never took place", w.Cfg)
		w.Violate("C10", "start-hangs-while-draining", "a tunnel opened while the handler is draining (%s): Start has not returned", w.Cfg)
		cancel()
		w.Advance(time.Second)
		w.Env.Signal("fin")
		w.Advance(time.Second)
		w.Finish()
		return
	}
	if r.err != nil {
		// not pinned: a draining handler might refuse the tunnel outright; it does not today
		w.Note("Start while draining failed: %v", r.err)
	} else {
		if rev, ok := grpctunnel.VerifClientRevision(r.ch); ok {
			want := tunnelpb.ProtocolRevision_REVISION_ZERO
			if w.Cfg.RevisionOne() {
				want = tunnelpb.ProtocolRevision_REVISION_ONE
			}
			w.Stat("drainopen_revision_checked", 1)
			if rev != want {
				w.Violate("C11", "wrong-revision-negotiated", "a tunnel opened while the handler is draining uses revision %v, configuration (%s) requires %v", rev, w.Cfg, want)
			}
		}
		for i, shape := range []string{"Unary", "Bidi"} {
			id := fmt.Sprintf("late%d", i)
			sp := &RPCSpec{ID: id, Method: shape, Client: []Op{{K: "invoke", N: 10}}, Handler: []Op{{K: "recv"}, {K: "send", N: 5}, {K: "ret"}}}
			if shape == "Bidi" {
				sp.Client = []Op{{K: "open"}, {K: "send", N: 10}, {K: "close"}, {K: "recvall"}}
			}
			w.Env.StartRPC(context.Background(), r.ch, sp)
			w.Advance(100 * time.Millisecond)
			v := buildViews(w.Env)[id]
			var t *OpRec
			if v != nil {
				t = clientTerminal(v)
			}
			w.Stat("drainopen_late_rpcs", 1)
			if t == nil {
				w.Violate("C10", "late-rpc-hangs", "an RPC on a tunnel opened while the handler is draining did not return (%s)", w.Cfg)
			} else if t.Code != codes.Unavailable {
				w.Violate("C10", "rpc-after-shutdown-not-unavailable", "an RPC on a tunnel opened while the handler is draining ended with %v %q, want Unavailable (%s)", t.Code, t.Err, w.Cfg)
			}
			for _, inv := range w.Env.Log.Invocations {
				if inv.RPC == id {
					w.Violate("C10", "rpc-after-shutdown-invoked-handler", "an RPC on a tunnel opened while the handler is draining reached a handler")
				}
			}
		}
		r.ch.Close()
	}
	w.Env.Signal("fin")
	w.Advance(time.Second)
	if c.p("before", 0) == 1 {
		// the RPC that was in flight when the shutdown began completes normally
		if v := buildViews(w.Env)["old"]; v == nil || clientTerminal(v) == nil || !clientTerminal(v).EOF {
			w.Violate("C10", "inflight-rpc-disturbed-by-shutdown", "an RPC in flight when the shutdown began did not complete normally (%s)", w.Cfg)
		}
	}
	for _, r := range w.Env.Log.OpenOps() {
		w.Violate("C10", "op-stuck-after-drain", "operation %s %s of rpc %s still blocked", r.Side, r.K, r.RPC)
	}
	w.Finish()
}
