package h

// fcboundary: the sender's window is driven to exactly zero (the data submitted
// so far ends precisely on the 64 KiB window) while the consumer is not reading,
// and then a message of a boundary size - in particular an EMPTY one, a one-byte
// one, exactly one chunk, exactly one more window - is submitted. Afterwards
// the consumer reads everything. Delivery oracle (C01), no stranded sender
// (C05), window monitor (C06). Both directions, all topologies.

import (
	"fmt"
	"math/rand"
	"time"
)

// serLen is the marshalled size of a BytesValue with an n-byte payload.
func serLen(n int) int {
	if n == 0 {
		return 0
	}
	v := 1
	for x := n; x >= 128; x >>= 7 {
		v++
	}
	return 1 + v + n
}

// payloadFor returns a payload size whose marshalled size is exactly target (or -1).
func payloadFor(target int) int {
	if target == 0 {
		return 0
	}
	for d := 2; d <= 5; d++ {
		if n := target - d; n > 0 && serLen(n) == target {
			return n
		}
	}
	return -1
}

var fcFills = [][]int{{65536}, {16384, 16384, 16384, 16384}, {65535, 1}, {1, 65535}, {32768, 32768}, {40000, 25536}, {3, 65533}}
var fcNext = []int{0, 1, 2, 16383, 16384, 16385, 65535, 65536, 65537}

func init() {
	families["fcboundary"] = famFCBoundary
	add := func(id string, quickEvery, thoroughReps int) {
		prev := listers[id]
		listers[id] = func(tier string, seed int64) []Case {
			out := prev(tier, seed)
			rng := rand.New(rand.NewSource(seed*193 + 65536))
			reps := 1
			if tier == "thorough" {
				reps = thoroughReps
			}
			n := 0
			for r := 0; r < reps; r++ {
				for fi := range fcFills {
					for _, nx := range fcNext {
						for _, side := range []string{"request", "response"} {
							n++
							if tier != "thorough" && n%quickEvery != 0 {
								continue
							}
							cfg := WorldCfg{Dir: allDirs[rng.Intn(len(allDirs))]}
							out = append(out, Case{Family: "fcboundary", Seed: rng.Int63(), Cfg: cfg, S: map[string]string{"side": side},
								P: map[string]int{"fill": fi, "next": nx, "then": []int{-1, 0, 5, 70000}[rng.Intn(4)]}})
						}
					}
				}
			}
			return out
		}
	}
	add("C01", 1, 10)
	add("C05", 1, 10)
	add("C06", 2, 10)
}

func famFCBoundary(w *World, c *Case, rng *rand.Rand) {
	if err := w.Open(nil); err != nil {
		w.Violate("C11", "open-failed", "opening the tunnel failed in configuration %s: %v", w.Cfg, err)
		w.Finish()
		return
	}
	side := c.s("side", "request")
	fill := fcFills[c.p("fill", 0)%len(fcFills)]
	w.SigExtra = fmt.Sprintf("%s/%v/next%d/then%d", side, fill, c.p("next", 0), c.p("then", -1))
	var sends []Op
	for _, t := range fill {
		p := payloadFor(t)
		if p < 0 {
			p = t // (no payload marshals to exactly t: use it as a payload size, the window is then not exactly exhausted)
		}
		sends = append(sends, Op{K: "send", N: p})
	}
	if p := payloadFor(c.p("next", 0)); p >= 0 {
		sends = append(sends, Op{K: "send", N: p})
	} else {
		sends = append(sends, Op{K: "send", N: c.p("next", 0)})
	}
	if t := c.p("then", -1); t >= 0 {
		sends = append(sends, Op{K: "send", N: t})
	}
	var s *RPCSpec
	if side == "request" {
		cl := append([]Op{{K: "open"}}, sends...)
		cl = append(cl, Op{K: "close"}, Op{K: "recvall"})
		s = &RPCSpec{ID: "fb", Method: "ClientStream", Client: cl, Handler: []Op{{K: "sync", Name: "read"}, {K: "recvall"}, {K: "send", N: 3}, {K: "ret"}}}
	} else {
		hd := append([]Op{{K: "recv"}}, sends...)
		hd = append(hd, Op{K: "ret"})
		s = &RPCSpec{ID: "fb", Method: "ServerStream", Client: []Op{{K: "open"}, {K: "send", N: 3}, {K: "close"}, {K: "sync", Name: "read"}, {K: "recvall"}}, Handler: hd}
	}
	w.Env.StartRPC(w.RootCtx, w.Ch, s)
	// the sender fills the window and parks (or, for an empty message, must still emit its envelope)
	w.Advance(50 * time.Millisecond)
	w.Env.Signal("read")
	w.Advance(time.Minute)
	for _, r := range w.Env.Log.OpenOps() {
		w.Violate("C05", "op-stuck-in-clean-run", "fcboundary %s: %s %s[%d] still blocked a minute after the consumer started reading", w.SigExtra, r.Side, r.K, r.Idx)
	}
	w.CheckDelivery()
	w.CheckOutcome()
	w.CheckTables(w.TCh, 0, 0, true, "after fcboundary")
	w.Stat("fcboundary_runs", 1)
	w.Finish()
}
