package h

// fcboundary: the sender's window is driven to exactly zero (the data submitted
// so far ends precisely on the 64 KiB window) while the consumer is not reading,
// and then a message of a boundary size - in particular an EMPTY one, a one-byte
// one, exactly one chunk, exactly one more window - is submitted. Afterwards
// the consumer reads everything. Delivery oracle (C01), no stranded sender
// (C05), window monitor (C06). Both directions, all topologies.

import (
	"fmt"
	"math/rand"
	"time"
)

// serLen is the marshalled size of a BytesValue with an n-byte payload.
func serLen(n int) int {
	if n == 0 {
		return 0
	}
	v := 1
	for x := n; x >= 128; x >>= 7 {
		v++
	}
	return 1 + v + n
}

// payloadFor returns a payload size whose marshalled size is exactly target (or -1).
func payloadFor(target int) int {
	if target == 0 {
		return 0
	}
	for d := 2; d <= 5; d++ {
		if n := target - d; n > 0 && serLen(n) == target {
			return n
		}
	}
	return -1
}

var fcFills = [][]int{{65536}, {16384, 16384, 16384, 16384}, {65535, 1}, {1, 65535}, {32768, 32768}, {40000, 25536}, {3, 65533}}
var fcNext = []int{0, 1, 2, 16383, 16384, 16385, 65535, 65536, 65537}

func init() {
	families["fcboundary"] = famFCBoundary
	add := func(id string, quickEvery, thoroughReps int) {
		prev := listers[id]
		listers[id] = func(tier string, seed int64) []Case {
			out := prev(tier, seed)
			rng := rand.New(rand.NewSource(seed*193 + 65536))
			reps := 1
			if tier == "thorough" {
				reps = thoroughReps
			}
			n := 0
			for r := 0; r < reps; r++ {
				for fi := range fcFills {
					for _, nx := range fcNext {
						for _, side := range []string{"request", "response"} {
							n++
							if tier != "thorough" && n%quickEvery != 0 {
								continue
							}
							cfg := WorldCfg{Dir: allDirs[rng.Intn(len(allDirs))]}
							out = append(out, Case{Family: "fcboundary", Seed: rng.Int63(), Cfg: cfg, S: map[string]string{"side": side},
								P: map[string]int{"fill": fi, "next": nx, "then": []int{-1, 0, 5, 70000}[rng.Intn(4)]}})
						}
					}
				}
			}
			return out
		}
	}
	add("C01", 1, 10)
	add("C05", 1, 10)
	add("C06", 2, 10)
	// stale wake-up tokens: a whole window is returned while the sender is idle, the next message
	// uses it up exactly without ever waiting, and the message after that starts at window zero with
	// a token of the earlier update still pending
	stale := func(id string, reps, thoroughReps int) {
		prev := listers[id]
		listers[id] = func(tier string, seed int64) []Case {
			out := prev(tier, seed)
			rng := rand.New(rand.NewSource(seed*197 + 65537))
			n := reps
			if tier == "thorough" {
				n = thoroughReps
			}
			for r := 0; r < n; r++ {
				for _, dir := range allDirs {
					for _, side := range []string{"request", "response"} {
						for fi := range fcFills {
							out = append(out, Case{Family: "fcboundary", Seed: rng.Int63(), Cfg: WorldCfg{Dir: dir}, S: map[string]string{"side": side, "pattern": "stale-token"},
								P: map[string]int{"fill": fi, "next": []int{1, 100, 16384, 20000, 65536}[rng.Intn(5)], "rounds": 1 + rng.Intn(3)}})
						}
					}
				}
			}
			return out
		}
	}
	stale("C13", 1, 8)
	stale("C05", 1, 8)
	stale("C01", 1, 8)
}

func famFCBoundary(w *World, c *Case, rng *rand.Rand) {
	if err := w.Open(nil); err != nil {
		w.Violate("C11", "open-failed", "opening the tunnel failed in configuration %s: %v", w.Cfg, err)
		w.Finish()
		return
	}
	if c.s("pattern", "") == "stale-token" {
		famFCStaleToken(w, c, rng)
		return
	}
	side := c.s("side", "request")
	fill := fcFills[c.p("fill", 0)%len(fcFills)]
	w.SigExtra = fmt.Sprintf("%s/%v/next%d/then%d", side, fill, c.p("next", 0), c.p("then", -1))
	var sends []Op
	for _, t := range fill {
		p := payloadFor(t)
		if p < 0 {
			p = t // (no payload marshals to exactly t: use it as a payload size, the window is then not exactly exhausted)
		}
		sends = append(sends, Op{K: "send", N: p})
	}
	if p := payloadFor(c.p("next", 0)); p >= 0 {
		sends = append(sends, Op{K: "send", N: p})
	} else {
		sends = append(sends, Op{K: "send", N: c.p("next", 0)})
	}
	if t := c.p("then", -1); t >= 0 {
		sends = append(sends, Op{K: "send", N: t})
	}
	var s *RPCSpec
	if side == "request" {
		cl := append([]Op{{K: "open"}}, sends...)
		cl = append(cl, Op{K: "close"}, Op{K: "recvall"})
		s = &RPCSpec{ID: "fb", Method: "ClientStream", Client: cl, Handler: []Op{{K: "sync", Name: "read"}, {K: "recvall"}, {K: "send", N: 3}, {K: "ret"}}}
	} else {
		hd := append([]Op{{K: "recv"}}, sends...)
		hd = append(hd, Op{K: "ret"})
		s = &RPCSpec{ID: "fb", Method: "ServerStream", Client: []Op{{K: "open"}, {K: "send", N: 3}, {K: "close"}, {K: "sync", Name: "read"}, {K: "recvall"}}, Handler: hd}
	}
	w.Env.StartRPC(w.RootCtx, w.Ch, s)
	// the sender fills the window and parks (or, for an empty message, must still emit its envelope)
	w.Advance(50 * time.Millisecond)
	w.Env.Signal("read")
	w.Advance(time.Minute)
	for _, r := range w.Env.Log.OpenOps() {
		w.Violate("C05", "op-stuck-in-clean-run", "fcboundary %s: %s %s[%d] still blocked a minute after the consumer started reading", w.SigExtra, r.Side, r.K, r.Idx)
	}
	w.CheckDelivery()
	w.CheckOutcome()
	w.CheckTables(w.TCh, 0, 0, true, "after fcboundary")
	w.Stat("fcboundary_runs", 1)
	w.Finish()
}

func famFCStaleToken(w *World, c *Case, rng *rand.Rand) {
	side := c.s("side", "request")
	fill := fcFills[c.p("fill", 0)%len(fcFills)]
	rounds := c.p("rounds", 1)
	w.SigExtra = fmt.Sprintf("stale/%s/%v/next%d/r%d", side, fill, c.p("next", 100), rounds)
	fillOps := func() []Op {
		var ops []Op
		for _, t := range fill {
			p := payloadFor(t)
			if p < 0 {
				p = t
			}
			ops = append(ops, Op{K: "send", N: p})
		}
		return ops
	}
	// sender: [ a whole window; wait until the consumer has read it and the credit has arrived ] x rounds,
	// then one more whole window (no wait needed: the window is open, the tokens of the earlier
	// updates are still pending), then a further message that has to wait at window zero
	var snd []Op
	for r := 0; r < rounds; r++ {
		snd = append(snd, fillOps()...)
		snd = append(snd, Op{K: "sync", Name: fmt.Sprintf("consumed%d", r)}, Op{K: "sleep", D: time.Millisecond})
	}
	snd = append(snd, fillOps()...)
	next := c.p("next", 100)
	if p := payloadFor(next); p >= 0 {
		next = p
	}
	snd = append(snd, Op{K: "send", N: next}, Op{K: "send", N: 7})
	// consumer: reads exactly the windows of the first rounds (announcing each), then waits for "go"
	var rcv []Op
	for r := 0; r < rounds; r++ {
		for range fill {
			rcv = append(rcv, Op{K: "recv"})
		}
		rcv = append(rcv, Op{K: "signal", Name: fmt.Sprintf("consumed%d", r)})
	}
	rcv = append(rcv, Op{K: "sync", Name: "go"}, Op{K: "recvall"})
	var s *RPCSpec
	if side == "request" {
		cl := append([]Op{{K: "open"}}, snd...)
		cl = append(cl, Op{K: "close"}, Op{K: "recvall"})
		s = &RPCSpec{ID: "st", Method: "ClientStream", Client: cl, Handler: append(rcv, Op{K: "send", N: 3}, Op{K: "ret"})}
	} else {
		hd := append([]Op{{K: "recv"}}, snd...)
		hd = append(hd, Op{K: "ret"})
		s = &RPCSpec{ID: "st", Method: "ServerStream", Client: append([]Op{{K: "open"}, {K: "send", N: 3}, {K: "close"}}, rcv...), Handler: hd}
	}
	w.Env.StartRPC(w.RootCtx, w.Ch, s)
	w.Advance(time.Second)
	w.Env.Signal("go")
	w.Advance(time.Minute)
	for _, r := range w.Env.Log.OpenOps() {
		w.Violate("C05", "op-stuck-in-clean-run", "fcboundary %s: %s %s[%d] still blocked a minute after the consumer resumed", w.SigExtra, r.Side, r.K, r.Idx)
	}
	w.CheckDelivery()
	w.CheckOutcome()
	w.CheckTables(w.TCh, 0, 0, true, "after fcboundary (stale token)")
	w.Stat("fcboundary_stale_token_runs", 1)
	w.Finish()
}
