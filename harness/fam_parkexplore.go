package h

// parkexplore (engine E2, free-running, real time): systematic single-delay
// exploration. One goroutine is delayed for a few milliseconds of real time at
// the k-th hit of one named yield point - under whatever locks the library holds
// there, which the stepped engine cannot do - while everything else runs at
// full speed, so the rest of the system gets as far as it can "inside" that
// window. Each (point, hit) is crossed with small event-driven scenarios:
// clean concurrent RPCs, cancellation / deadline / channel close / graceful
// shutdown / refusal struck when a handler reports having reached a phase.
// Judged by the same wire monitors and offline oracles; "stuck" is decided by
// the absence of any logged or wire event over many consecutive polls.

import (
	"context"
	"fmt"
	"math/rand"
	"time"

	"google.golang.org/grpc/codes"
)

var yieldPoints = []string{
	"fc.update.added", "fc.send.loaded", "fc.send.beforeWait", "fc.send.beforeCAS", "fc.send.reserved", "fc.dequeue.beforeCredit",
	"rev.open.created", "rev.open.betweenAdds", "rev.open.beforeKeyAdd", "rev.unregister.between", "revsrv.serve.beforeAdd", "revsrv.stop.beforeCloseSend",
	"carrier.send.beforeLock", "client.newStream.allocated", "client.newStream.sent", "client.recv.gotFrame", "client.recv.beforeAccept", "server.recv.beforeAccept", "client.close.afterTearDown",
	"client.read.beforeDequeue", "client.cancel.beforeReceiverCancel", "client.finish.afterDone", "client.finish.betweenPublish",
	"server.recv.gotFrame", "server.create.begin", "server.read.beforeDequeue", "server.read.dequeueFalse", "server.watcher.beforeCancel",
	"server.finish.afterCancel", "server.finish.afterRemove", "server.finish.beforeWrite",
}

var parkScenarios = []string{"clean", "cancel", "deadline", "handler-deadline", "close", "shutdown", "refuse"}

func init() {
	families["parkexplore"] = famParkExplore
	freeFamilies["parkexplore"] = true
	add := func(id string, quick, thorough int) {
		prev := listers[id]
		listers[id] = func(tier string, seed int64) []Case {
			out := prev(tier, seed)
			rng := rand.New(rand.NewSource(seed*3571 + 99))
			var all []Case
			for _, pt := range yieldPoints {
				for hit := 0; hit < 8; hit++ {
					for _, sc := range parkScenarios {
						for _, dir := range []string{"forward", "reverse"} {
							cfg := WorldCfg{Dir: dir}
							if rng.Intn(4) == 0 {
								cfg.ClientNoFC, cfg.ServerNoFC = true, true
							}
							all = append(all, Case{Family: "parkexplore", Seed: rng.Int63(), Cfg: cfg, S: map[string]string{"point": pt, "scen": sc}, P: map[string]int{"hit": hit}})
						}
					}
				}
			}
			n := quick
			if tier == "thorough" {
				n = thorough
			}
			if n >= len(all) {
				return append(out, all...)
			}
			for _, i := range rng.Perm(len(all))[:n] {
				out = append(out, all[i])
			}
			return out
		}
	}
	add("C01", 300, 1<<30)
	add("C03", 200, 1<<30)
	add("C04", 300, 1<<30)
	add("C05", 200, 1<<30)
	add("C07", 300, 1<<30)
	add("C08", 200, 1<<30)
	add("C09", 100, 1<<30)
	add("C10", 300, 1<<30)
	add("C13", 300, 1<<30)
	add("C14", 300, 1<<30)
	add("C15", 60, 1500)
}

// awaitFree waits for ch in a free-running scenario. It gives up (false) only
// after 150 consecutive polls, 20 ms apart, during which not a single new
// API-boundary or wire event was logged.
func (w *World) awaitFree(ch <-chan struct{}) bool {
	last, still := w.Env.Seq.Load(), 0
	for {
		select {
		case <-ch:
			return true
		case <-time.After(20 * time.Millisecond):
		}
		if p := w.Env.Seq.Load(); p != last {
			last, still = p, 0
			continue
		}
		still++
		if still >= 150 {
			return false
		}
	}
}

func famParkExplore(w *World, c *Case, rng *rand.Rand) {
	point, scen, hit := c.s("point", "client.recv.gotFrame"), c.s("scen", "clean"), c.p("hit", 0)
	w.installYield(&YieldPlan{Fn: func(p string, n int) {
		if p == point && n == hit {
			w.Stat("parkexplore_delays_applied", 1)
			time.Sleep(3 * time.Millisecond)
		}
	}})
	w.SigExtra = fmt.Sprintf("%s#%d/%s", point, hit, scen)
	if err := w.Open(nil); err != nil {
		w.Violate("C11", "open-failed", "opening the tunnel failed in configuration %s: %v", w.Cfg, err)
		w.Finish()
		return
	}
	stuck := func(prop, what string) {
		for _, r := range w.Env.Log.OpenOps() {
			w.Violate(prop, "op-hangs:"+r.Side+":"+r.K, "parkexplore %s: %s; %s %s[%d] of rpc %s has not returned and nothing has happened for 150 polls", w.SigExtra, what, r.Side, r.K, r.Idx, r.RPC)
		}
		w.Violate(prop, "scenario-stuck", "parkexplore %s: %s: no progress", w.SigExtra, what)
	}
	waitAll := func(prop string, specs ...*RPCSpec) bool {
		for _, s := range specs {
			if !w.awaitFree(s.done) {
				stuck(prop, "waiting for rpc "+s.ID)
				return false
			}
		}
		return true
	}
	by := &RPCSpec{ID: "by", Method: "Bidi",
		Client:  []Op{{K: "open"}, {K: "send", N: 2000}, {K: "recv"}, {K: "sync", Name: "fin"}, {K: "send", N: 30000}, {K: "recv"}, {K: "close"}, {K: "recvall"}},
		Handler: []Op{{K: "recv"}, {K: "send", N: 3000}, {K: "signal", Name: "by-up"}, {K: "recv"}, {K: "send", N: 40000}, {K: "recvall"}, {K: "ret", Code: codes.OK}}}
	// subject: a few messages each way, the handler reports when it has read the first one
	n := 2 + rng.Intn(3)
	cl := []Op{{K: "open"}}
	for i := 0; i < n; i++ {
		cl = append(cl, Op{K: "send", N: genSize(rng, 20000)})
	}
	if rng.Intn(2) == 0 {
		cl = append(cl, Op{K: "close"})
	}
	cl = append(cl, Op{K: "recvall"})
	subj := &RPCSpec{ID: "subj", Method: "Bidi", Client: cl,
		Handler: []Op{{K: "recv"}, {K: "signal", Name: "h"}, {K: "recvall"}, {K: "send", N: 700}, {K: "ret"}}}
	ok := true
	switch scen {
	case "clean":
		o := ScriptOpts{FlowControl: w.Cfg.RevisionOne(), MaxMsgs: 4, MaxSize: 140000, Pacing: "eager", Status: true, Meta: true}
		var specs []*RPCSpec
		for i := 0; i < 3; i++ {
			s := GenRPC(rng, fmt.Sprintf("r%d", i), o)
			specs = append(specs, s)
			w.Env.StartRPC(w.RootCtx, w.Ch, s)
		}
		ok = waitAll("C05", specs...)
	case "cancel", "deadline", "handler-deadline", "close":
		switch scen {
		case "deadline":
			subj.Timeout = time.Duration(1+rng.Intn(4)) * time.Millisecond
		case "handler-deadline":
			subj.GrpcTimeout = fmt.Sprintf("%dm", 1+rng.Intn(4))
		}
		if scen == "close" {
			by.NeverCancel, subj.NeverCancel = rng.Intn(2) == 0, rng.Intn(2) == 0
		}
		w.Env.StartRPC(w.RootCtx, w.Ch, by)
		w.Env.StartRPC(w.RootCtx, w.Ch, subj)
		switch scen {
		case "cancel":
			if w.awaitFree(w.Env.syncChan("h")) {
				subj.cancel()
			}
		case "close":
			if w.awaitFree(w.Env.syncChan("h")) {
				if len(w.RevSrvs) > 0 && rng.Intn(2) == 0 {
					go w.RevSrvs[0].Stop()
				} else {
					w.TCh.Close()
				}
			}
		}
		if scen == "close" || w.awaitFree(w.Env.syncChan("by-up")) {
			w.Env.Signal("fin")
		}
		ok = waitAll("C04", subj, by)
		if ok {
			w.judgeStruck(scen, subj, by)
		}
	case "shutdown":
		w.Env.StartRPC(w.RootCtx, w.Ch, by)
		if !w.awaitFree(w.Env.syncChan("by-up")) {
			stuck("C05", "bystander start")
			ok = false
			break
		}
		if w.Cfg.Dir != "forward" {
			// (the moment GracefulStop takes effect is not observable from outside; forward only)
			w.Env.Signal("fin")
			ok = waitAll("C05", by)
			break
		}
		w.Handler.InitiateShutdown()
		var lates []*RPCSpec
		for i := 0; i < 3; i++ {
			s := &RPCSpec{ID: fmt.Sprintf("late%d", i), Method: "Unary", Client: []Op{{K: "invoke", N: 50}}, Handler: []Op{{K: "recv"}, {K: "send", N: 50}, {K: "ret"}}}
			if i == 2 {
				s.Method, s.Client, s.Handler = "ClientStream", []Op{{K: "open"}, {K: "send", N: 10}, {K: "close"}, {K: "recvall"}}, []Op{{K: "recvall"}, {K: "send", N: 1}, {K: "ret"}}
			}
			lates = append(lates, s)
			w.Env.StartRPC(w.RootCtx, w.Ch, s)
		}
		ok = waitAll("C10", lates...)
		w.Env.Signal("fin")
		ok = waitAll("C10", by) && ok
		if ok {
			views := buildViews(w.Env)
			invoked := map[string]bool{}
			w.Env.Log.mu.Lock()
			for _, inv := range w.Env.Log.Invocations {
				invoked[inv.RPC] = true
			}
			w.Env.Log.mu.Unlock()
			for _, s := range lates {
				t := clientTerminal(views[s.ID])
				if t == nil || t.Code != codes.Unavailable {
					e := "<none>"
					if t != nil {
						e = t.Err
					}
					w.Violate("C10", "rpc-after-shutdown-not-unavailable", "parkexplore %s: RPC %s (%s) started after InitiateShutdown ended with %q instead of Unavailable", w.SigExtra, s.ID, s.Method, e)
				}
				if invoked[s.ID] {
					w.Violate("C10", "rpc-after-shutdown-invoked-handler", "parkexplore %s: RPC %s started after InitiateShutdown reached a handler", w.SigExtra, s.ID)
				}
			}
			select {
			case <-w.TCh.Done():
				w.Violate("C10", "tunnel-ended-during-drain", "parkexplore %s: the tunnel ended on graceful shutdown", w.SigExtra)
			default:
			}
		}
	case "refuse":
		w.Env.StartRPC(w.RootCtx, w.Ch, by)
		bad := &RPCSpec{ID: "bad", Method: "Unary", RawMethod: "/verif.Svc/NoSuchMethod", Client: []Op{{K: "invoke", N: 50}}}
		bad2 := &RPCSpec{ID: "bad2", Method: "Bidi", RawMethod: "/no.such.Service/X", Client: []Op{{K: "open"}, {K: "send", N: 5}, {K: "close"}, {K: "recvall"}}}
		w.Env.StartRPC(w.RootCtx, w.Ch, bad)
		w.Env.StartRPC(w.RootCtx, w.Ch, bad2)
		ok = waitAll("C03", bad, bad2)
		if w.awaitFree(w.Env.syncChan("by-up")) {
			w.Env.Signal("fin")
		}
		ok = waitAll("C03", by) && ok
		if ok {
			views := buildViews(w.Env)
			for _, id := range []string{"bad", "bad2"} {
				if t := clientTerminal(views[id]); t == nil || t.Code != codes.Unimplemented {
					e := "<none>"
					if t != nil {
						e = t.Err
					}
					w.Violate("C09", "unknown-method-not-unimplemented", "parkexplore %s: RPC to an unknown method ended with %q", w.SigExtra, e)
				}
			}
			if t := clientTerminal(views["by"]); t == nil || !t.EOF {
				w.Violate("C03", "bystander-disturbed", "parkexplore %s: the bystander RPC did not end normally after two refused RPCs", w.SigExtra)
			}
		}
	}
	if ok {
		// handlers too: every invoked handler has returned
		handlersBack := make(chan struct{})
		stop := make(chan struct{})
		go func() {
			for {
				if w.allHandlersReturned() {
					close(handlersBack)
					return
				}
				select {
				case <-stop:
					return
				case <-time.After(time.Millisecond):
				}
			}
		}()
		back := w.awaitFree(handlersBack)
		close(stop)
		if back {
			w.CheckDelivery()
			if scen == "clean" || scen == "shutdown" || scen == "refuse" {
				w.CheckOutcome()
			}
		} else {
			stuck("C04", "waiting for handlers to return")
		}
	}
	w.Stat("parkexplore_runs", 1)
	w.Finish()
}

// allHandlersReturned reports whether every handler invocation logged so far
// has logged its return.
func (w *World) allHandlersReturned() bool {
	l := w.Env.Log
	l.mu.Lock()
	defer l.mu.Unlock()
	ret := map[string]int{}
	for _, r := range l.recs {
		if r.Side == "handler" && r.K == "ret" && r.RetSeq != 0 {
			ret[r.RPC]++
		}
	}
	for _, inv := range l.Invocations {
		if ret[inv.RPC] == 0 {
			return false
		}
	}
	return true
}

// judgeStruck applies the two-legal-outcomes rule to an RPC that was struck by
// a cancellation, deadline or tunnel end at an arbitrary moment, and demands
// that the bystander was not affected (unless the tunnel itself was ended).
func (w *World) judgeStruck(scen string, subj, by *RPCSpec) {
	views := buildViews(w.Env)
	v := views[subj.ID]
	t := clientTerminal(v)
	if t == nil {
		w.Violate("C07", "no-terminal-result", "parkexplore %s: rpc %s has no terminal result", w.SigExtra, subj.ID)
		return
	}
	normalOK := t.K == "recv" && t.EOF
	if normalOK {
		okSends, got := 0, 0
		for _, s := range v.hdlSends {
			if s.RetSeq != 0 && s.Err == "" {
				okSends++
			}
		}
		for _, r := range v.cliRecvs {
			if r.RetSeq != 0 && r.Err == "" {
				got++
			}
		}
		if v.ret == nil {
			w.Violate("C07", "success-without-handler-return", "parkexplore %s: rpc %s reported a normal end but its handler had not returned", w.SigExtra, subj.ID)
		} else if got != okSends {
			w.Violate("C07", "mixed-outcome:missing-data", "parkexplore %s: rpc %s: caller was told OK with %d message(s), handler sent %d", w.SigExtra, subj.ID, got, okSends)
		}
	} else if scen != "close" {
		cancelled := t.Code == codes.Canceled || t.Code == codes.DeadlineExceeded || t.Err == context.Canceled.Error() || t.Err == context.DeadlineExceeded.Error()
		if !cancelled {
			w.Violate("C07", "neither-legal-outcome", "parkexplore %s: rpc %s ended with %q: neither Canceled/DeadlineExceeded nor the handler's outcome", w.SigExtra, subj.ID, t.Err)
		}
	}
	if scen != "close" {
		if bt := clientTerminal(views[by.ID]); bt == nil || !bt.EOF {
			e := "<none>"
			if bt != nil {
				e = bt.Err
			}
			w.Violate("C03", "bystander-disturbed", "parkexplore %s: the bystander RPC ended with %q after the other RPC was struck", w.SigExtra, e)
		}
		select {
		case <-w.TCh.Done():
			w.Violate("C07", "tunnel-ended", "parkexplore %s: the tunnel ended: %v", w.SigExtra, w.TCh.Err())
		default:
		}
	}
}
