package h

// C12: reverse-tunnel registry. Random histories of tunnels being opened with
// colliding / distinct / nil affinity keys, closed from either end or broken
// (also while registration is parked half-way), interleaved with RPC routing,
// Ready / WaitForReady and enumeration; a model of the set of open tunnels is
// compared at every quiescent point.

import (
	"context"
	"fmt"
	"math/rand"
	"sort"
	"sync/atomic"
	"time"

	"google.golang.org/grpc/codes"
	"google.golang.org/grpc/metadata"

	"github.com/jhump/grpctunnel"
	"github.com/jhump/grpctunnel/tunnelpb"
)

func init() {
	families["registry"] = famRegistry
	listers["C12"] = func(tier string, seed int64) []Case {
		var out []Case
		rng := rand.New(rand.NewSource(seed*601 + 12))
		n := 800
		if tier == "thorough" {
			n = 40000
		}
		for i := 0; i < n; i++ {
			cfg := WorldCfg{Dir: "reverse"}
			if rng.Intn(5) == 0 {
				cfg.ClientNoFC, cfg.ServerNoFC = true, true
			}
			out = append(out, Case{Family: "registry", Seed: rng.Int63(), Cfg: cfg, P: map[string]int{"park": rng.Intn(2), "steps": 12 + rng.Intn(20)}})
		}
		return out
	}
}

type regTunnel struct {
	ident         string
	key           string // "<nil>" for the nil key
	rs            *grpctunnel.ReverseTunnelServer
	open          bool
	closing       atomic.Bool // set before the scenario does anything that ends the tunnel
	serve         *ServeResult
	cancel        context.CancelFunc
	link          *Link
	ch            grpctunnel.TunnelChannel
	opens, closes int
}

func famRegistry(w *World, c *Case, rng *rand.Rand) {
	keys := []string{"a", "a", "b", "<nil>", "a", "b"}
	nT := 3 + rng.Intn(4)
	tun := map[string]*regTunnel{}
	var order []string
	byChan := map[grpctunnel.TunnelChannel]*regTunnel{}
	hd := grpctunnel.NewTunnelServiceHandler(grpctunnel.TunnelServiceHandlerOptions{
		DisableFlowControl: w.Cfg.ClientNoFC,
		AffinityKey:        AffinityFromMD,
		OnReverseTunnelOpen: func(ch grpctunnel.TunnelChannel) {
			md, _ := metadata.FromIncomingContext(ch.Context())
			id := ""
			if v := md.Get("x-ident"); len(v) > 0 {
				id = v[0]
			}
			// the open callback announces the tunnel: at that moment (the callback may take as long as
			// it likes - greet the new peer with an RPC addressed by its key, say) every view has it
			w.mu.Lock()
			mt := tun[id]
			w.mu.Unlock()
			if hdl := w.Handler; hdl != nil && mt != nil && !mt.closing.Load() {
				inAll := false
				for _, x := range hdl.AllReverseTunnels() {
					if x == ch {
						inAll = true
					}
				}
				byKey := hdl.KeyAsChannel(AffinityFromMD(ch)).Ready()
				all := hdl.AsChannel().Ready()
				// (judged only if the scenario had not begun to end this tunnel, before or during the look)
				if !mt.closing.Load() {
					if !inAll || !byKey || !all {
						w.Violate("C12", "announced-tunnel-not-in-every-view", "tunnel %s: inside its open callback AllReverseTunnels lists it: %v, KeyAsChannel(its key).Ready(): %v, AsChannel().Ready(): %v", id, inAll, byKey, all)
					}
					w.Stat("registry_open_callback_view_checks", 1)
				}
			}
			w.mu.Lock()
			if t := tun[id]; t != nil {
				t.opens++
				t.ch = ch
				byChan[ch] = t
				if t.closes > 0 {
					w.Violations = append(w.Violations, Violation{"C12", "open-callback-after-close", "tunnel " + id + ": open callback after its close callback"})
				}
			}
			w.mu.Unlock()
		},
		OnReverseTunnelClose: func(ch grpctunnel.TunnelChannel) {
			// the close callback says the tunnel is gone: from that moment on no view has it (a callback
			// doing fail-over consults the by-key view right here)
			if hdl := w.Handler; hdl != nil {
				inAll, inKey := grpctunnel.VerifReverseListsContain(hdl, AffinityFromMD(ch), ch)
				if inAll || inKey {
					w.Violate("C12", "closed-tunnel-still-in-a-view", "inside the close callback of a tunnel the global list still holds it: %v, the list of its key still holds it: %v", inAll, inKey)
				}
				w.Stat("registry_close_callback_view_checks", 1)
			}
			w.mu.Lock()
			if t := byChan[ch]; t != nil {
				t.closes++
				if t.opens == 0 {
					w.Violations = append(w.Violations, Violation{"C12", "close-callback-before-open", "tunnel " + t.ident + ": close callback without open callback"})
				}
			}
			w.mu.Unlock()
		},
	})
	w.Handler = hd
	tunnelpb.RegisterTunnelServiceServer(w.Conn, hd.Service())
	w.Stub = tunnelpb.NewTunnelServiceClient(w.Conn)
	gen := 0
	newTunnel := func(slot int) *regTunnel {
		gen++
		t := &regTunnel{ident: fmt.Sprintf("t%d-%d", slot, gen), key: keys[slot%len(keys)]}
		t.rs = grpctunnel.NewReverseTunnelServer(w.Stub, w.serverOpts()...)
		desc, impl := NewSvc(w.Env, t.ident)
		t.rs.RegisterService(desc, impl)
		w.mu.Lock()
		tun[t.ident] = t
		w.mu.Unlock()
		order = append(order, t.ident)
		return t
	}
	if c.p("park", 0) == 1 {
		plan := &YieldPlan{Parks: map[string][]time.Duration{}}
		for _, pt := range []string{"rev.open.created", "rev.open.betweenAdds", "rev.open.beforeKeyAdd", "rev.unregister.between", "client.close.afterTearDown", "revsrv.serve.beforeAdd"} {
			ds := make([]time.Duration, 200)
			for i := range ds {
				if rng.Intn(2) == 0 {
					ds[i] = time.Duration(100+rng.Intn(900)) * time.Microsecond
				}
			}
			plan.Parks[pt] = ds
		}
		w.installYield(plan)
	} else {
		w.installYield(&YieldPlan{})
	}
	slots := make([]*regTunnel, nT)
	startServe := func(t *regTunnel) {
		md := metadata.Pairs("x-ident", t.ident)
		if t.key != "none" {
			md.Set("x-key", t.key)
		}
		ctx, cancel := context.WithCancel(metadata.NewOutgoingContext(w.RootCtx, md))
		t.cancel = cancel
		nl := len(w.Conn.Links())
		t.serve = w.startServe(t.rs, ctx, t.ident)
		w.Wait()
		if ls := w.Conn.Links(); len(ls) > nl {
			t.link = ls[nl]
		}
		t.open = true
	}
	rpcN := 0
	type route struct {
		via   string
		ident string
	}
	doRPC := func(via string) (string, codes.Code) {
		rpcN++
		id := fmt.Sprintf("r%d", rpcN)
		var ch grpctunnel.ReverseClientConnInterface
		if via == "all" {
			ch = hd.AsChannel()
		} else if via == "<nil>" {
			ch = hd.KeyAsChannel(nil)
		} else {
			ch = hd.KeyAsChannel(via)
		}
		// callers commonly ask Ready() before every call: queries must not influence routing
		for i := rng.Intn(3); i > 0; i-- {
			_ = ch.Ready()
			w.Stat("registry_ready_queries_between_rpcs", 1)
		}
		s := &RPCSpec{ID: id, Method: "Unary", UseChanOpt: true, Client: []Op{{K: "invoke", N: 10}}, Handler: []Op{{K: "ident"}, {K: "recv"}, {K: "send", N: 5}, {K: "ret"}}}
		w.Env.StartRPC(context.Background(), ch, s)
		w.Advance(5 * time.Millisecond)
		v := buildViews(w.Env)[id]
		if v == nil || v.invoke == nil || v.invoke.RetSeq == 0 {
			w.Violate("C12", "routed-rpc-hangs", "RPC via %s did not return", via)
			return "", codes.Unknown
		}
		if v.invoke.Err != "" {
			return "", v.invoke.Code
		}
		ident := ""
		for _, r := range v.all {
			if r.K == "ident" {
				ident = r.Extra["ident"]
			}
		}
		// the channel reported by WithTunnelChannel is the one whose server answered
		w.mu.Lock()
		t := tun[ident]
		w.mu.Unlock()
		if t == nil || t.ch == nil || fmt.Sprintf("%p", t.ch) != v.invoke.Extra["chan_opt"] {
			w.Violate("C17", "with-tunnel-channel-wrong", "RPC via %s answered by %s but WithTunnelChannel reports %s", via, ident, v.invoke.Extra["chan_opt"])
		}
		return ident, codes.OK
	}
	openSet := func(key string) []string {
		var out []string
		for _, id := range order {
			t := tun[id]
			if t.open && (key == "all" || t.key == key) {
				out = append(out, id)
			}
		}
		sort.Strings(out)
		return out
	}
	// pending WaitForReady calls: key -> done channel
	type waiter struct {
		key    string
		done   chan error
		cancel context.CancelFunc
		opens0 int // open callbacks of matching tunnels when the wait began
	}
	opensFor := func(key string) int {
		n := 0
		w.mu.Lock()
		for _, t := range tun {
			if key == "all" || t.key == key {
				n += t.opens
			}
		}
		w.mu.Unlock()
		return n
	}
	var waiters []*waiter
	quiescentCheck := func(where string) {
		w.Advance(5 * time.Millisecond)
		w.Stat("registry_quiescent_checks", 1)
		// AllReverseTunnels == open set
		var got []string
		for _, ch := range hd.AllReverseTunnels() {
			w.mu.Lock()
			t := byChan[ch]
			w.mu.Unlock()
			if t == nil {
				got = append(got, "?")
			} else {
				got = append(got, t.ident)
			}
		}
		sort.Strings(got)
		want := openSet("all")
		if fmt.Sprint(got) != fmt.Sprint(want) {
			w.Violate("C12", "enumeration-mismatch", "%s: AllReverseTunnels() = %v, open tunnels = %v", where, got, want)
		}
		for _, k := range []string{"all", "a", "b", "<nil>", "zzz"} {
			var ch grpctunnel.ReverseClientConnInterface
			switch k {
			case "all":
				ch = hd.AsChannel()
			case "<nil>":
				ch = hd.KeyAsChannel(nil)
			default:
				ch = hd.KeyAsChannel(k)
			}
			wantReady := len(openSet(k)) > 0
			if ch.Ready() != wantReady {
				w.Violate("C12", "ready-mismatch", "%s: Ready() of channel %q = %v, open tunnels with that key: %v", where, k, ch.Ready(), openSet(k))
			}
		}
		all, perKey := grpctunnel.VerifReverseRegistry(hd)
		if all != len(want) {
			w.Violate("C14", "reverse-registry-size", "%s: global registry holds %d, open tunnels %d", where, all, len(want))
		}
		for k, n := range perKey {
			ks := "<nil>"
			if k != nil {
				ks = fmt.Sprint(k)
			}
			if n != len(openSet(ks)) {
				w.Violate("C14", "reverse-key-registry-size", "%s: registry for key %v holds %d, open tunnels with that key %d", where, k, n, len(openSet(ks)))
			}
		}
		// waiters
		var still []*waiter
		for _, wt := range waiters {
			empty := len(openSet(wt.key)) == 0
			select {
			case err := <-wt.done:
				// legal if a matching tunnel was registered (even transiently) since the wait began
				if empty && opensFor(wt.key) == wt.opens0 {
					w.Violate("C12", "wait-for-ready-returned-while-empty", "%s: WaitForReady(%q) returned %v although no such tunnel is open", where, wt.key, err)
				} else if err != nil {
					w.Violate("C12", "wait-for-ready-error", "%s: WaitForReady(%q) returned %v", where, wt.key, err)
				}
				w.Stat("registry_waiters_released", 1)
			default:
				if !empty {
					w.Violate("C12", "wait-for-ready-blocked-while-ready", "%s: WaitForReady(%q) still blocked although tunnels %v are open", where, wt.key, openSet(wt.key))
				}
				still = append(still, wt)
			}
		}
		waiters = still
	}
	steps := c.p("steps", 16)
	for s := 0; s < steps; s++ {
		slot := rng.Intn(nT)
		t := slots[slot]
		op := rng.Intn(12)
		where := fmt.Sprintf("step %d", s)
		switch {
		case op < 3: // open
			if t == nil || !t.open {
				t = newTunnel(slot)
				slots[slot] = t
				startServe(t)
				where += " open " + t.ident
				w.Stat("registry_opens", 1)
			}
		case op == 3: // client end stops
			if t != nil && t.open {
				t.closing.Store(true)
				go t.rs.Stop()
				t.open = false
				where += " stop " + t.ident
				w.Stat("registry_closes", 1)
			}
		case op == 4: // server end closes the channel
			if t != nil && t.open && t.ch != nil {
				t.closing.Store(true)
				t.ch.Close()
				t.open = false
				where += " server-close " + t.ident
				w.Stat("registry_closes", 1)
			}
		case op == 5: // transport breaks
			if t != nil && t.open && t.link != nil {
				t.closing.Store(true)
				t.link.Break()
				t.open = false
				where += " break " + t.ident
				w.Stat("registry_closes", 1)
			}
		case op == 6: // opener's context cancelled
			if t != nil && t.open {
				t.closing.Store(true)
				t.cancel()
				t.open = false
				where += " ctx-cancel " + t.ident
				w.Stat("registry_closes", 1)
			}
		case op == 7: // dies during registration: open and break at once
			if t == nil || !t.open {
				t = newTunnel(slot)
				slots[slot] = t
				startServe(t)
				if t.link != nil {
					time.Sleep(time.Duration(rng.Intn(800)) * time.Microsecond)
					t.closing.Store(true)
					t.link.Break()
				}
				t.open = false
				where += " open-and-break " + t.ident
				w.Stat("registry_died_during_registration", 1)
			}
		case op == 8: // WaitForReady
			k := []string{"all", "a", "b", "<nil>"}[rng.Intn(4)]
			var ch grpctunnel.ReverseClientConnInterface
			switch k {
			case "all":
				ch = hd.AsChannel()
			case "<nil>":
				ch = hd.KeyAsChannel(nil)
			default:
				ch = hd.KeyAsChannel(k)
			}
			ctx, cancel := context.WithCancel(context.Background())
			wt := &waiter{key: k, done: make(chan error, 1), cancel: cancel, opens0: opensFor(k)}
			go func() { wt.done <- ch.WaitForReady(ctx) }()
			waiters = append(waiters, wt)
			where += " wait " + k
		default: // routing
			quiescentCheck(where + " (before routing)")
			k := []string{"all", "a", "b", "<nil>", "zzz"}[rng.Intn(5)]
			set := openSet(k)
			n := len(set)
			if n == 0 {
				_, code := doRPC(k)
				w.Stat("registry_unroutable_rpcs", 1)
				if code != codes.Unavailable {
					w.Violate("C12", "no-tunnel-not-unavailable", "RPC via %q with no matching open tunnel ended with %v", k, code)
				}
				break
			}
			// n consecutive RPCs through one pooled channel use each tunnel exactly once
			seen := map[string]int{}
			var seq []string
			for i := 0; i < n+rng.Intn(n+1); i++ {
				ident, code := doRPC(k)
				w.Stat("registry_routed_rpcs", 1)
				if code != codes.OK {
					w.Violate("C12", "routed-rpc-failed", "RPC via %q failed with %v although tunnels %v are open", k, code, set)
					continue
				}
				seq = append(seq, ident)
				w.mu.Lock()
				tt := tun[ident]
				w.mu.Unlock()
				if tt == nil || !tt.open {
					w.Violate("C12", "routed-to-closed-tunnel", "RPC via %q was carried by tunnel %s which is not open (open: %v)", k, ident, set)
				} else if k != "all" && tt.key != k {
					w.Violate("C12", "routed-to-wrong-key", "RPC via key %q was carried by tunnel %s with key %q", k, ident, tt.key)
				}
			}
			for i := 0; i+n <= len(seq); i++ {
				for k2 := range seen {
					delete(seen, k2)
				}
				for _, id := range seq[i : i+n] {
					seen[id]++
				}
				if len(seen) != n {
					w.Violate("C12", "round-robin-not-fair", "with %d stable tunnels %v, %d consecutive RPCs used %v", n, set, n, seq[i:i+n])
				}
				w.Stat("registry_rr_windows", 1)
			}
		}
		quiescentCheck(where)
	}
	// tear everything down
	for _, id := range order {
		t := tun[id]
		if t.open {
			go t.rs.Stop()
			t.open = false
		}
	}
	quiescentCheck("after closing everything")
	for _, wt := range waiters {
		wt.cancel()
	}
	w.Advance(time.Second)
	w.mu.Lock()
	for _, id := range order {
		t := tun[id]
		if t.opens != 1 || t.closes != 1 {
			w.Violations = append(w.Violations, Violation{"C12", "callback-count", fmt.Sprintf("tunnel %s: %d open callback(s), %d close callback(s)", id, t.opens, t.closes)})
		}
	}
	w.RevSrvs = nil
	w.mu.Unlock()
	w.Stat("registry_runs", 1)
	w.Stat("registry_tunnels", len(order))
	w.Finish()
}

// ---- first use of a brand-new affinity key by many goroutines at once ----

func init() {
	families["keyrace"] = famKeyRace
	prev := listers["C12"]
	listers["C12"] = func(tier string, seed int64) []Case {
		out := prev(tier, seed)
		rng := rand.New(rand.NewSource(seed*607 + 121))
		n := 60
		if tier == "thorough" {
			n = 3000
		}
		for i := 0; i < n; i++ {
			out = append(out, Case{Family: "keyrace", Seed: rng.Int63(), Cfg: WorldCfg{Dir: "reverse"}, P: map[string]int{"keys": 12}})
		}
		return out
	}
}

// famKeyRace: for each of several never-seen keys, several WaitForReady
// callers, Ready pollers and two tunnels with that key are released by one
// barrier, so that the first uses of the key are truly concurrent.
func famKeyRace(w *World, c *Case, rng *rand.Rand) {
	hd := w.NewHandler(false, AffinityFromMD)
	w.Handler = hd
	tunnelpb.RegisterTunnelServiceServer(w.Conn, hd.Service())
	w.Stub = tunnelpb.NewTunnelServiceClient(w.Conn)
	for ki := 0; ki < c.p("keys", 12); ki++ {
		key := fmt.Sprintf("nk%d", ki)
		barrier := make(chan struct{})
		nw := 2 + rng.Intn(6)
		waitRes := make(chan error, nw)
		wctx, wcancel := context.WithCancel(context.Background())
		for i := 0; i < nw; i++ {
			go func() {
				<-barrier
				waitRes <- hd.KeyAsChannel(key).WaitForReady(wctx)
			}()
		}
		for i := 0; i < 2; i++ {
			go func() {
				<-barrier
				_ = hd.KeyAsChannel(key).Ready()
			}()
		}
		var rss []*grpctunnel.ReverseTunnelServer
		for i := 0; i < 2; i++ {
			ident := fmt.Sprintf("%s-t%d", key, i)
			rs := grpctunnel.NewReverseTunnelServer(w.Stub)
			desc, impl := NewSvc(w.Env, ident)
			rs.RegisterService(desc, impl)
			rss = append(rss, rs)
			ctx := metadata.NewOutgoingContext(w.RootCtx, metadata.Pairs("x-key", key, "x-ident", ident))
			w.Env.wg.Add(1)
			go func() {
				defer w.Env.wg.Done()
				<-barrier
				_, _ = rs.Serve(ctx)
			}()
		}
		w.Wait()
		close(barrier)
		w.Advance(10 * time.Millisecond)
		w.Stat("keyrace_keys", 1)
		// every waiter released, Ready, both tunnels reachable through the key
		released := 0
		for i := 0; i < nw; i++ {
			select {
			case err := <-waitRes:
				if err != nil {
					w.Violate("C12", "wait-for-ready-error", "WaitForReady(%q) returned %v", key, err)
				}
				released++
			default:
			}
		}
		if released != nw {
			w.Violate("C12", "wait-for-ready-blocked-while-ready", "new key %q: %d of %d concurrent WaitForReady callers are still blocked although two tunnels with that key are open", key, nw-released, nw)
		}
		wcancel()
		if !hd.KeyAsChannel(key).Ready() {
			w.Violate("C12", "ready-mismatch", "new key %q: Ready() is false although two tunnels with that key are open", key)
		}
		_, perKey := grpctunnel.VerifReverseRegistry(hd)
		if perKey[key] != 2 {
			w.Violate("C12", "enumeration-mismatch", "new key %q: the per-key registry reachable through KeyAsChannel holds %d of the 2 open tunnels", key, perKey[key])
		}
		seen := map[string]bool{}
		for i := 0; i < 2; i++ {
			id := fmt.Sprintf("%s-r%d", key, i)
			s := &RPCSpec{ID: id, Method: "Unary", Client: []Op{{K: "invoke", N: 5}}, Handler: []Op{{K: "ident"}, {K: "recv"}, {K: "send", N: 5}, {K: "ret"}}}
			w.Env.StartRPC(context.Background(), hd.KeyAsChannel(key), s)
			w.Advance(time.Millisecond)
			if v := buildViews(w.Env)[id]; v != nil && v.invoke != nil && v.invoke.Err == "" {
				for _, r := range v.all {
					if r.K == "ident" {
						seen[r.Extra["ident"]] = true
					}
				}
			} else {
				w.Violate("C12", "routed-rpc-failed", "new key %q: RPC through KeyAsChannel failed although two tunnels are open", key)
			}
		}
		if len(seen) != 2 {
			w.Violate("C12", "round-robin-not-fair", "new key %q: two consecutive RPCs used tunnels %v, two are open", key, seen)
		}
		for _, rs := range rss {
			go rs.Stop()
		}
		w.Advance(10 * time.Millisecond)
		if hd.KeyAsChannel(key).Ready() {
			w.Violate("C12", "ready-mismatch", "key %q: Ready() still true after both tunnels were stopped", key)
		}
	}
	w.Finish()
}
