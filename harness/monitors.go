package h

// Online monitors on the carrier tap: the per-stream protocol automaton
// (C13, id rules of C08, revision rules of C11) and the flow-control window
// accounting (C06). They run under the tap lock in event order.

import (
	"fmt"

	"github.com/jhump/grpctunnel"
	"github.com/jhump/grpctunnel/tunnelpb"
)

const (
	chunkLimit    = 16384
	defaultWindow = 65536
)

type wireStream struct {
	id           int64
	tag          string
	rev          tunnelpb.ProtocolRevision
	newDelivered bool
	// request direction
	reqRemaining int64 // bytes still to come of the current request message (-1: none in progress)
	halfMid      bool  // half-close emitted while a request message was incomplete
	reqMsgs      int
	halfClosed   int
	cancels      int
	// response direction
	respRemaining  int64
	respMsgs       int
	headers        int
	closes         int
	closeSeq       int64
	closeOK        bool
	dataAfterClose int
}

type wireLink struct {
	link         *Link
	lastNewID    int64
	haveNew      bool
	streams      map[int64]*wireStream
	srvFrames    int
	settings     *tunnelpb.Settings
	settingsSeen bool
	down         bool
	reqNegotiate bool
}

// WireMonitor checks every emitted frame against the documented protocol.
type WireMonitor struct {
	w     *World
	links map[*Link]*wireLink

	// JudgeClient / JudgeServer select which end is the real library (a raw
	// peer's emissions are not judged).
	JudgeClient bool
	JudgeServer bool
	// ClientAwaitsSettings: the tunnel client conforms by awaiting settings
	// before creating streams (true for the library client).
	ClientAwaitsSettings bool
	// ExpectRev: protocol revision library clients must use (-1 = do not check).
	ExpectRev int
	// ExpectSettings: 1 = settings must be exchanged, 0 = must not, -1 = unchecked.
	ExpectSettings int

	Frames     int
	DataFrames int
	MaxChunk   int
	Messages   int
	Streams    int
}

// NewWireMonitor creates the monitor with expectations derived from the world configuration.
func NewWireMonitor(w *World) *WireMonitor {
	m := &WireMonitor{w: w, links: map[*Link]*wireLink{}, JudgeClient: true, JudgeServer: true, ClientAwaitsSettings: true}
	cfg := w.Cfg
	if cfg.RevisionOne() {
		m.ExpectRev = 1
	} else {
		m.ExpectRev = 0
	}
	if cfg.StripReq || cfg.StripResp {
		m.ExpectSettings = 0
	} else {
		m.ExpectSettings = 1
	}
	return m
}

func (m *WireMonitor) lk(l *Link) *wireLink {
	wl := m.links[l]
	if wl == nil {
		wl = &wireLink{link: l, streams: map[int64]*wireStream{}, lastNewID: -1}
		m.links[l] = wl
	}
	return wl
}

func (m *WireMonitor) v(prop, key, format string, args ...any) {
	m.w.Violate(prop, key, format, args...)
}

// OnTap implements TapSink.
func (m *WireMonitor) OnTap(e *TapEvent) {
	wl := m.lk(e.Link)
	switch e.Kind {
	case "client-finished", "server-aborted", "break", "close-send", "server-returned", "reset-by-server":
		wl.down = true
		return
	case "deliver":
		if f := e.C2SFrame(); f != nil {
			if _, ok := f.Frame.(*tunnelpb.ClientToServer_NewStream); ok {
				if st := wl.streams[f.StreamId]; st != nil {
					st.newDelivered = true
				}
			}
		}
		return
	case "emit":
	default:
		return
	}
	m.Frames++
	if f := e.C2SFrame(); f != nil {
		m.clientFrame(wl, e, f)
	} else if f := e.S2CFrame(); f != nil {
		m.serverFrame(wl, e, f)
	}
}

func (m *WireMonitor) clientFrame(wl *wireLink, e *TapEvent, f *tunnelpb.ClientToServer) {
	judge := m.JudgeClient
	id := f.StreamId
	st := wl.streams[id]
	if ns, ok := f.Frame.(*tunnelpb.ClientToServer_NewStream); ok {
		if judge {
			if st != nil {
				m.v("C08", "wire-duplicate-new-stream", "link %d: second new_stream frame for stream id %d", wl.link.ID, id)
			}
			if wl.haveNew && id <= wl.lastNewID {
				m.v("C08", "wire-id-not-increasing", "link %d: new_stream id %d emitted after id %d", wl.link.ID, id, wl.lastNewID)
			}
			if id < 0 {
				m.v("C08", "wire-negative-id", "link %d: new_stream with negative id %d", wl.link.ID, id)
			}
			if m.ExpectRev >= 0 && int(ns.NewStream.ProtocolRevision) != m.ExpectRev {
				m.v("C11", "wrong-revision-used", "link %d: new_stream %d uses protocol revision %d, configuration requires %d", wl.link.ID, id, ns.NewStream.ProtocolRevision, m.ExpectRev)
			}
			// the window a library client announces for the responses of a stream is the window its
			// receiver enforces (the compiled-in one), whatever the peer's own settings say: announcing
			// less lets a peer overrun what was announced, announcing more gets compliant peers refused
			if win, _ := grpctunnel.VerifConstants(); ns.NewStream.ProtocolRevision == tunnelpb.ProtocolRevision_REVISION_ONE && ns.NewStream.InitialWindowSize != win {
				m.v("C06", "announced-window-differs-from-enforced", "link %d: new_stream %d announces a window of %d bytes for its responses, the endpoint's receiver enforces %d", wl.link.ID, id, ns.NewStream.InitialWindowSize, win)
			}
			if m.ClientAwaitsSettings && m.ExpectSettings == 1 && !wl.settingsSeen {
				m.v("C13", "stream-before-settings", "link %d: client created stream %d before the settings frame was emitted", wl.link.ID, id)
			}
		}
		if id > wl.lastNewID || !wl.haveNew {
			wl.lastNewID = id
		}
		wl.haveNew = true
		if st == nil {
			tag := ""
			if md := ns.NewStream.RequestHeaders; md != nil {
				if v := md.Md["x-rpc"]; v != nil && len(v.Val) > 0 {
					tag = v.Val[0]
				}
			}
			wl.streams[id] = &wireStream{id: id, tag: tag, rev: ns.NewStream.ProtocolRevision, reqRemaining: -1, respRemaining: -1}
			m.Streams++
		}
		return
	}
	if st == nil {
		if judge {
			m.v("C08", "wire-frame-before-new-stream", "link %d: frame %T for stream id %d emitted before any new_stream for it", wl.link.ID, f.Frame, id)
		}
		return
	}
	if !judge {
		return
	}
	switch fr := f.Frame.(type) {
	case *tunnelpb.ClientToServer_RequestMessage:
		m.DataFrames++
		n := len(fr.RequestMessage.Data)
		m.chunk(wl, id, n)
		if st.halfClosed > 0 {
			m.v("C13", "request-data-after-half-close", "link %d stream %d: request message emitted after half-close", wl.link.ID, id)
		}
		// (an application that goes on sending after a failed SendMsg - e.g. on an RPC its peer has
		// already finished - legitimately starts a new message after an aborted one; not judged)
		if st.reqRemaining > 0 && !m.w.sendFailedBefore(st.tag, "client", e.Seq) {
			m.v("C13", "request-envelope-inside-message", "link %d stream %d: new request message frame while %d bytes of the previous message are outstanding", wl.link.ID, id, st.reqRemaining)
		}
		if int64(n) > int64(fr.RequestMessage.Size) {
			m.v("C13", "request-data-exceeds-size", "link %d stream %d: envelope carries %d bytes but states size %d", wl.link.ID, id, n, fr.RequestMessage.Size)
		}
		st.reqRemaining = int64(fr.RequestMessage.Size) - int64(n)
		st.reqMsgs++
		m.Messages++
	case *tunnelpb.ClientToServer_MoreRequestData:
		m.DataFrames++
		n := len(fr.MoreRequestData)
		m.chunk(wl, id, n)
		if st.halfClosed > 0 {
			m.v("C13", "request-data-after-half-close", "link %d stream %d: request data emitted after half-close", wl.link.ID, id)
		}
		if st.reqRemaining <= 0 {
			m.v("C13", "request-continuation-without-message", "link %d stream %d: continuation frame with no message in progress", wl.link.ID, id)
		} else if int64(n) > st.reqRemaining {
			m.v("C13", "request-data-exceeds-size", "link %d stream %d: continuation of %d bytes exceeds the %d outstanding", wl.link.ID, id, n, st.reqRemaining)
		}
		if n == 0 {
			m.v("C13", "empty-continuation", "link %d stream %d: empty continuation frame", wl.link.ID, id)
		}
		st.reqRemaining -= int64(n)
	case *tunnelpb.ClientToServer_HalfClose:
		if st.halfClosed == 0 && st.reqRemaining > 0 {
			st.halfMid = true // the request stream was half-closed in the middle of a message
		}
		st.halfClosed++
		if st.halfClosed > 1 {
			m.v("C13", "second-half-close", "link %d stream %d: half-close emitted %d times", wl.link.ID, id, st.halfClosed)
		}
		// (a half-close after an incomplete message is what an application
		// produces by calling CloseSend after a failed SendMsg; not judged)
	case *tunnelpb.ClientToServer_Cancel:
		st.cancels++
		if st.cancels > 1 {
			m.v("C13", "second-cancel", "link %d stream %d: cancel emitted %d times", wl.link.ID, id, st.cancels)
		}
	case *tunnelpb.ClientToServer_WindowUpdate:
		if st.rev == tunnelpb.ProtocolRevision_REVISION_ZERO {
			m.v("C11", "window-update-on-revision-zero", "link %d stream %d: client emitted window_update on a revision-zero stream", wl.link.ID, id)
		}
	case nil:
		m.v("C13", "empty-frame", "link %d stream %d: client emitted a frame with no content", wl.link.ID, id)
	}
}

func (m *WireMonitor) chunk(wl *wireLink, id int64, n int) {
	if n > m.MaxChunk {
		m.MaxChunk = n
	}
	if n > chunkLimit {
		m.v("C13", "chunk-too-large", "link %d stream %d: %d bytes of message data in one frame (limit %d)", wl.link.ID, id, n, chunkLimit)
		m.v("C06", "chunk-too-large", "link %d stream %d: %d bytes of message data in one frame (limit %d)", wl.link.ID, id, n, chunkLimit)
	}
}

func (m *WireMonitor) serverFrame(wl *wireLink, e *TapEvent, f *tunnelpb.ServerToClient) {
	judge := m.JudgeServer
	wl.srvFrames++
	id := f.StreamId
	if s, ok := f.Frame.(*tunnelpb.ServerToClient_Settings); ok {
		wl.settingsSeen = true
		wl.settings = s.Settings
		if judge {
			if id != -1 {
				m.v("C13", "settings-bad-id", "link %d: settings frame with stream id %d", wl.link.ID, id)
			}
			if wl.srvFrames != 1 && m.ClientAwaitsSettings {
				m.v("C13", "settings-not-first", "link %d: settings frame was server frame number %d", wl.link.ID, wl.srvFrames)
			}
			if wl.srvFrames != 1 && !m.ClientAwaitsSettings {
				// a peer that does not await settings may legitimately see a
				// response first; only a second settings frame is wrong.
			}
			if m.ExpectSettings == 0 {
				m.v("C11", "settings-to-legacy-peer", "link %d: settings frame emitted although negotiation was not advertised by both ends", wl.link.ID)
			}
		}
		return
	}
	if judge && m.ExpectSettings == 1 && !wl.settingsSeen && m.ClientAwaitsSettings {
		m.v("C13", "settings-missing-first", "link %d: server frame %T for stream %d emitted before settings", wl.link.ID, f.Frame, id)
	}
	st := wl.streams[id]
	if st == nil {
		if judge {
			m.v("C13", "server-frame-unknown-stream", "link %d: server frame %T for stream id %d that no new_stream created", wl.link.ID, f.Frame, id)
		}
		return
	}
	if !judge {
		if _, ok := f.Frame.(*tunnelpb.ServerToClient_CloseStream); ok {
			st.closes++
		}
		return
	}
	handlerEnded := st.closes > 0 && st.closeOK
	switch fr := f.Frame.(type) {
	case *tunnelpb.ServerToClient_ResponseHeaders:
		st.headers++
		if st.headers > 1 {
			m.v("C13", "second-response-headers", "link %d stream %d: response headers emitted %d times", wl.link.ID, id, st.headers)
		}
		if st.respMsgs > 0 {
			m.v("C13", "headers-after-message", "link %d stream %d: response headers emitted after a response message", wl.link.ID, id)
		}
		if st.closes > 0 {
			m.v("C13", "frame-after-close", "link %d stream %d: response headers emitted after the close frame", wl.link.ID, id)
		}
	case *tunnelpb.ServerToClient_ResponseMessage:
		m.DataFrames++
		n := len(fr.ResponseMessage.Data)
		m.chunk(wl, id, n)
		// "After the stream is closed, no other messages should use the given
		// stream ID" (tunnel.proto): whoever ended the stream, the library
		// serialises data frames and the close frame on the stream's write lock
		if st.closes > 0 {
			m.v("C13", "frame-after-close", "link %d stream %d: response message emitted after the close frame (handler ended the stream: %v)", wl.link.ID, id, handlerEnded)
		}
		if st.respRemaining > 0 && !m.w.sendFailedBefore(st.tag, "handler", e.Seq) {
			m.v("C13", "response-envelope-inside-message", "link %d stream %d: new response message frame while %d bytes of the previous message are outstanding", wl.link.ID, id, st.respRemaining)
		}
		if int64(n) > int64(fr.ResponseMessage.Size) {
			m.v("C13", "response-data-exceeds-size", "link %d stream %d: envelope carries %d bytes but states size %d", wl.link.ID, id, n, fr.ResponseMessage.Size)
		}
		st.respRemaining = int64(fr.ResponseMessage.Size) - int64(n)
		st.respMsgs++
		m.Messages++
	case *tunnelpb.ServerToClient_MoreResponseData:
		m.DataFrames++
		n := len(fr.MoreResponseData)
		m.chunk(wl, id, n)
		if st.closes > 0 {
			m.v("C13", "frame-after-close", "link %d stream %d: response data emitted after the close frame (handler ended the stream: %v)", wl.link.ID, id, handlerEnded)
		}
		if st.respRemaining <= 0 {
			m.v("C13", "response-continuation-without-message", "link %d stream %d: continuation frame with no message in progress", wl.link.ID, id)
		} else if int64(n) > st.respRemaining {
			m.v("C13", "response-data-exceeds-size", "link %d stream %d: continuation of %d bytes exceeds the %d outstanding", wl.link.ID, id, n, st.respRemaining)
		}
		if n == 0 {
			m.v("C13", "empty-continuation", "link %d stream %d: empty continuation frame", wl.link.ID, id)
		}
		st.respRemaining -= int64(n)
	case *tunnelpb.ServerToClient_CloseStream:
		st.closes++
		if st.closes > 1 {
			m.v("C13", "second-close", "link %d stream %d: close frame emitted %d times", wl.link.ID, id, st.closes)
		}
		if st.closes == 1 {
			st.closeSeq = e.Seq
			// did the handler end the stream? (its scripted return was logged
			// before this close was emitted)
			st.closeOK = m.w.handlerReturnedBefore(st.tag, e.Seq)
			// (an OK close after an incomplete message is what a handler
			// produces by returning nil after a failed SendMsg; not judged)
		}
	case *tunnelpb.ServerToClient_WindowUpdate:
		// the library returns credit from inside the handler's RecvMsg, so a
		// window update after the close of a handler-ended stream is legal
		// only while some (misbehaving, but scripted) second handler actor is
		// still inside a receive
		if handlerEnded && !m.w.handlerRecvOpen(st.tag) {
			m.v("C13", "frame-after-close", "link %d stream %d: window update emitted after the close frame of a stream its handler ended", wl.link.ID, id)
		}
		if st.rev == tunnelpb.ProtocolRevision_REVISION_ZERO {
			m.v("C11", "window-update-on-revision-zero", "link %d stream %d: server emitted window_update on a revision-zero stream", wl.link.ID, id)
		}
	case nil:
		m.v("C13", "empty-frame", "link %d stream %d: server emitted a frame with no content", wl.link.ID, id)
	}
}

// sendFailedBefore reports whether a send of the tagged RPC on the given side
// returned an error before sequence number seq.
func (w *World) sendFailedBefore(tag, side string, seq int64) bool {
	if tag == "" {
		return false
	}
	l := w.Env.Log
	l.mu.Lock()
	defer l.mu.Unlock()
	for _, r := range l.recs {
		if r.RPC == tag && r.Side == side && (r.K == "send" || r.K == "invoke") && r.RetSeq != 0 && r.Err != "" && r.RetSeq < seq {
			return true
		}
	}
	return false
}

// handlerReturnedBefore reports whether the scripted handler of the tagged RPC
// logged its return before sequence number seq.
func (w *World) handlerReturnedBefore(tag string, seq int64) bool {
	if tag == "" {
		return false
	}
	l := w.Env.Log
	l.mu.Lock()
	defer l.mu.Unlock()
	for _, r := range l.recs {
		if r.RPC == tag && r.Side == "handler" && r.K == "ret" && r.RetSeq != 0 && r.RetSeq < seq {
			return true
		}
	}
	return false
}

// handlerRecvOpen reports whether a handler-side receive of the tagged RPC has
// been called and has not returned yet.
func (w *World) handlerRecvOpen(tag string) bool {
	if tag == "" {
		return true
	}
	l := w.Env.Log
	l.mu.Lock()
	defer l.mu.Unlock()
	for _, r := range l.recs {
		if r.RPC == tag && r.Side == "handler" && r.K == "recv" && r.RetSeq == 0 {
			return true
		}
	}
	return false
}

// AtEnd checks the exactly-one-close clause at a quiescent point while tunnels are up.
func (m *WireMonitor) AtEnd() {
	// (needs a true quiescent point: not available in free-running mode)
	if !m.JudgeServer || m.w.Free {
		return
	}
	idle := map[*Link]bool{}
	for _, l := range m.w.Conn.Links() {
		a, _ := l.Pending(C2S)
		b, _ := l.Pending(S2C)
		idle[l] = a == 0 && b == 0
	}
	l := m.w.Env.Log
	l.mu.Lock()
	invoked := map[string]bool{}
	for _, inv := range l.Invocations {
		invoked[inv.RPC] = true
	}
	returned := map[string]bool{}
	for _, r := range l.recs {
		if r.Side == "handler" && r.K == "ret" && r.RetSeq != 0 {
			returned[r.RPC] = true
		}
	}
	l.mu.Unlock()
	t := m.w.Tap
	t.mu.Lock()
	defer t.mu.Unlock()
	for _, wl := range m.links {
		if wl.down || !idle[wl.link] {
			continue
		}
		for id, st := range wl.streams {
			if !st.newDelivered || st.tag == "" {
				continue
			}
			ended := returned[st.tag] || !invoked[st.tag] || st.cancels > 0
			if ended && st.closes != 1 {
				m.v("C13", "close-frame-count", "link %d stream %d (rpc %s): %d close frames emitted for a stream that was rejected, cancelled or whose handler returned", wl.link.ID, id, st.tag, st.closes)
			}
			m.w.Stat("close_frame_checks", 1)
		}
	}
}

// Counters returns what the wire monitor saw.
func (m *WireMonitor) Counters() map[string]int {
	t := m.w.Tap
	t.mu.Lock()
	defer t.mu.Unlock()
	return map[string]int{"wire_frames": m.Frames, "wire_data_frames": m.DataFrames, "wire_max_chunk": m.MaxChunk, "wire_messages": m.Messages, "wire_streams": m.Streams}
}

// ---- window accounting (C06) ----

type winDir struct {
	window         int64 // advertised by the receiver of this direction
	dataEmitted    int64
	creditToSender int64 // credit delivered to the data sender
	dataDelivered  int64 // data delivered to the receiver
	creditEmitted  int64 // credit emitted by the receiver
	maxOutstanding int64
}

type winStream struct {
	rev  tunnelpb.ProtocolRevision
	req  winDir // data: tunnel client -> tunnel server
	resp winDir
}

type winLink struct {
	settingsWindow int64
	haveSettings   bool
	streams        map[int64]*winStream
}

// WindowMonitor checks the sender bound and the credit bound on every
// revision-one stream.
type WindowMonitor struct {
	w              *World
	links          map[*Link]*winLink
	JudgeClient    bool
	JudgeServer    bool
	DataEvents     int
	Credits        int
	MaxOutstanding int64
	FullWindows    int
}

// NewWindowMonitor creates the monitor.
func NewWindowMonitor(w *World) *WindowMonitor {
	return &WindowMonitor{w: w, links: map[*Link]*winLink{}, JudgeClient: true, JudgeServer: true}
}

func (m *WindowMonitor) lk(l *Link) *winLink {
	wl := m.links[l]
	if wl == nil {
		wl = &winLink{streams: map[int64]*winStream{}, settingsWindow: defaultWindow}
		m.links[l] = wl
	}
	return wl
}

// OnTap implements TapSink.
func (m *WindowMonitor) OnTap(e *TapEvent) {
	if e.Kind != "emit" && e.Kind != "deliver" {
		return
	}
	wl := m.lk(e.Link)
	emit := e.Kind == "emit"
	if f := e.C2SFrame(); f != nil {
		id := f.StreamId
		switch fr := f.Frame.(type) {
		case *tunnelpb.ClientToServer_NewStream:
			if emit && wl.streams[id] == nil {
				ws := &winStream{rev: fr.NewStream.ProtocolRevision}
				ws.req.window = wl.settingsWindow
				ws.resp.window = int64(fr.NewStream.InitialWindowSize)
				wl.streams[id] = ws
			}
		case *tunnelpb.ClientToServer_RequestMessage:
			m.data(wl, e, id, true, len(fr.RequestMessage.Data), emit)
		case *tunnelpb.ClientToServer_MoreRequestData:
			m.data(wl, e, id, true, len(fr.MoreRequestData), emit)
		case *tunnelpb.ClientToServer_WindowUpdate:
			// client credits the response direction
			m.credit(wl, e, id, false, int64(fr.WindowUpdate), emit)
		}
	} else if f := e.S2CFrame(); f != nil {
		id := f.StreamId
		switch fr := f.Frame.(type) {
		case *tunnelpb.ServerToClient_Settings:
			if emit {
				wl.settingsWindow = int64(fr.Settings.InitialWindowSize)
				wl.haveSettings = true
			}
		case *tunnelpb.ServerToClient_ResponseMessage:
			m.data(wl, e, id, false, len(fr.ResponseMessage.Data), emit)
		case *tunnelpb.ServerToClient_MoreResponseData:
			m.data(wl, e, id, false, len(fr.MoreResponseData), emit)
		case *tunnelpb.ServerToClient_WindowUpdate:
			m.credit(wl, e, id, true, int64(fr.WindowUpdate), emit)
		}
	}
}

// data: a data frame of the request (req=true) or response direction was emitted or delivered.
func (m *WindowMonitor) data(wl *winLink, e *TapEvent, id int64, req bool, n int, emit bool) {
	ws := wl.streams[id]
	if ws == nil || ws.rev == tunnelpb.ProtocolRevision_REVISION_ZERO {
		return
	}
	d := &ws.resp
	judgeSender := m.JudgeServer
	dirName := "response"
	if req {
		d = &ws.req
		judgeSender = m.JudgeClient
		dirName = "request"
	}
	if !emit {
		d.dataDelivered += int64(n)
		return
	}
	m.DataEvents++
	d.dataEmitted += int64(n)
	out := d.dataEmitted - d.creditToSender
	if out > d.maxOutstanding {
		d.maxOutstanding = out
	}
	if out > m.MaxOutstanding {
		m.MaxOutstanding = out
	}
	if out == d.window {
		m.FullWindows++
	}
	if judgeSender && out > d.window {
		m.w.Violate("C06", "sender-exceeds-window", "link %d stream %d %s direction: %d un-credited bytes on the wire after this frame, advertised window %d (emitted %d, credit delivered to sender %d)", e.Link.ID, id, dirName, out, d.window, d.dataEmitted, d.creditToSender)
	}
}

// credit: a window update crediting the request (req=true) or response direction.
func (m *WindowMonitor) credit(wl *winLink, e *TapEvent, id int64, req bool, n int64, emit bool) {
	ws := wl.streams[id]
	if ws == nil || ws.rev == tunnelpb.ProtocolRevision_REVISION_ZERO {
		return
	}
	d := &ws.resp
	judgeReceiver := m.JudgeClient // the client receives responses and credits them
	dirName := "response"
	if req {
		d = &ws.req
		judgeReceiver = m.JudgeServer
		dirName = "request"
	}
	if !emit {
		d.creditToSender += n
		return
	}
	m.Credits++
	d.creditEmitted += n
	if judgeReceiver && d.creditEmitted > d.dataDelivered {
		m.w.Violate("C06", "credit-exceeds-delivered", "link %d stream %d %s direction: credit emitted %d exceeds data delivered to that endpoint %d", e.Link.ID, id, dirName, d.creditEmitted, d.dataDelivered)
	}
}

// StreamTotals returns, for the stream with the given id on a link, the request and response accounting.
func (m *WindowMonitor) StreamTotals(l *Link, id int64) (req, resp winDir, ok bool) {
	t := m.w.Tap
	t.mu.Lock()
	defer t.mu.Unlock()
	wl := m.links[l]
	if wl == nil {
		return
	}
	ws := wl.streams[id]
	if ws == nil {
		return
	}
	return ws.req, ws.resp, true
}

// Counters returns what the window monitor saw.
func (m *WindowMonitor) Counters() map[string]int {
	t := m.w.Tap
	t.mu.Lock()
	defer t.mu.Unlock()
	return map[string]int{"win_data_events": m.DataEvents, "win_credits": m.Credits, "win_max_outstanding": int(m.MaxOutstanding), "win_full_windows": m.FullWindows}
}

var _ = fmt.Sprintf

// StreamByTag finds the link and stream id of the RPC with the given x-rpc tag.
// HalfClosedMidMessage reports whether the client half-closed the tagged RPC's request stream in
// the middle of a message (possible only after a failed SendMsg).
func (m *WireMonitor) HalfClosedMidMessage(tag string) bool {
	t := m.w.Tap
	t.mu.Lock()
	defer t.mu.Unlock()
	for _, wl := range m.links {
		for _, st := range wl.streams {
			if st.tag == tag && st.halfMid {
				return true
			}
		}
	}
	return false
}

func (m *WireMonitor) StreamByTag(tag string) (*Link, int64, bool) {
	t := m.w.Tap
	t.mu.Lock()
	defer t.mu.Unlock()
	for l, wl := range m.links {
		for id, st := range wl.streams {
			if st.tag == tag {
				return l, id, true
			}
		}
	}
	return nil, 0, false
}
