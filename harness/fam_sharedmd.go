package h

// sharedmd: handlers hand the library a long-lived metadata value - the same map in every RPC, as
// an application does with a package-level "common headers / common trailers" value - followed by
// per-request values through further SetHeader / SetTrailer calls. The handler never modifies the
// long-lived value; every caller must read exactly what its own handler set (C02): nothing of an
// earlier RPC's per-request values may show up. RPCs run one after the other or concurrently.

import (
	"context"
	"fmt"
	"math/rand"
	"time"

	"google.golang.org/grpc/codes"
	"google.golang.org/grpc/metadata"
)

func init() { families["sharedmd"] = famSharedMD }

func sharedMDCases(tier string, seed int64) []Case {
	var out []Case
	rng := rand.New(rand.NewSource(seed*911 + 5))
	reps := 1
	if tier == "thorough" {
		reps = 6
	}
	for r := 0; r < reps; r++ {
		for _, dir := range allDirs {
			for _, fc := range []bool{true, false} {
				for order := 0; order < 2; order++ {
					for conc := 0; conc < 2; conc++ {
						cfg := WorldCfg{Dir: dir, ClientNoFC: !fc}
						out = append(out, Case{Family: "sharedmd", Seed: rng.Int63(), Cfg: cfg, P: map[string]int{"order": order, "conc": conc, "n": 3 + rng.Intn(3)}})
					}
				}
			}
		}
	}
	return out
}

func famSharedMD(w *World, c *Case, rng *rand.Rand) {
	if err := w.Open(nil); err != nil {
		w.Violate("C11", "open-failed", "open: %v", err)
		w.Finish()
		return
	}
	order, conc, n := c.p("order", 0), c.p("conc", 0) == 1, c.p("n", 3)
	w.SigExtra = fmt.Sprintf("order%d/conc%v/n%d", order, conc, n)
	commonH := metadata.MD{"x-common": {"h1", "h2"}, "x-common-bin": {"\x00\x01"}}
	commonT := metadata.MD{"x-common": {"t1"}, "x-served-by": {"backend-7"}}
	shapes := []string{"Unary", "ServerStream", "Bidi", "ClientStream"}
	via := func() string { return []string{"", "ctx"}[rng.Intn(2)] }
	for i := 0; i < n; i++ {
		id := fmt.Sprintf("s%d", i)
		shape := shapes[rng.Intn(len(shapes))]
		own := func(kind string) metadata.MD {
			md := metadata.MD{"request-id": {fmt.Sprintf("%s-%s", kind, id)}}
			if rng.Intn(2) == 0 {
				md["x-common"] = []string{"own-" + id} // a key the long-lived value also carries
			}
			return md
		}
		hdr := []Op{{K: "sethdr", MD: commonH, Shared: true, Name: via()}, {K: "sethdr", MD: own("h"), Name: via()}}
		trl := []Op{{K: "settrl", MD: commonT, Shared: true, Name: via()}, {K: "settrl", MD: own("t"), Name: via()}}
		if rng.Intn(3) == 0 {
			trl = append(trl, Op{K: "settrl", MD: own("t2"), Name: via()})
		}
		if order == 1 {
			hdr[0], hdr[1] = hdr[1], hdr[0]
			trl[0], trl[1] = trl[1], trl[0]
		}
		ret := Op{K: "ret"}
		if rng.Intn(3) == 0 {
			ret = Op{K: "ret", Code: codes.NotFound, Msg: "scripted"}
		}
		s := &RPCSpec{ID: id, Method: shape, UseHeaderOpt: true, UseTrailerOpt: true}
		switch shape {
		case "Unary":
			s.Client = []Op{{K: "invoke", N: 10 + rng.Intn(100)}}
			s.Handler = append(append(append(append([]Op{}, hdr...), Op{K: "recv"}), trl...), Op{K: "send", N: 7}, ret)
		case "ServerStream":
			s.Client = []Op{{K: "open"}, {K: "send", N: 10}, {K: "close"}, {K: "recvall"}, {K: "header"}, {K: "trailer"}}
			s.Handler = append(append(append(append([]Op{{K: "recv"}}, hdr...), Op{K: "send", N: 100}, Op{K: "send", N: 20000}), trl...), ret)
		case "Bidi":
			s.Client = []Op{{K: "open"}, {K: "send", N: 10}, {K: "recv"}, {K: "close"}, {K: "recvall"}, {K: "header"}, {K: "trailer"}}
			s.Handler = append(append(append(append([]Op{{K: "recv"}}, hdr...), Op{K: "send", N: 5}, Op{K: "recvall"}), trl...), ret)
		case "ClientStream":
			s.Client = []Op{{K: "open"}, {K: "send", N: 10}, {K: "send", N: 17000}, {K: "close"}, {K: "recvall"}, {K: "header"}, {K: "trailer"}}
			s.Handler = append(append(append(append([]Op{{K: "recvall"}}, hdr...), trl...), Op{K: "send", N: 5}), ret)
		}
		w.Env.StartRPC(context.Background(), w.Ch, s)
		if !conc {
			w.Advance(100 * time.Millisecond)
		}
		w.Stat("sharedmd_rpcs", 1)
	}
	w.Advance(time.Second)
	for _, r := range w.Env.Log.OpenOps() {
		w.Violate("C05", "op-stuck-in-clean-run", "operation %s %s of rpc %s still blocked", r.Side, r.K, r.RPC)
	}
	w.CheckDelivery()
	w.CheckOutcome()
	w.Finish()
}
