package h

// finishwindow: the client's receive loop is held at one point of the path that
// finishes a stream (after the outcome was decided, before readers are woken)
// while the caller cancels or its deadline expires, with response messages still
// queued unread. Afterwards the caller drains the stream: it must see either the
// cancellation or the complete normal outcome - never a normal end with
// messages missing (C07), and never a lost message (C01).

import (
	"fmt"
	"math/rand"
	"time"

	"google.golang.org/grpc/codes"
	"google.golang.org/grpc/metadata"
)

func init() {
	families["finishwindow"] = famFinishWindow
	add := func(id string, quickReps, thoroughReps int) {
		prev := listers[id]
		listers[id] = func(tier string, seed int64) []Case {
			out := prev(tier, seed)
			rng := rand.New(rand.NewSource(seed*1327 + 707))
			reps := quickReps
			if tier == "thorough" {
				reps = thoroughReps
			}
			for r := 0; r < reps; r++ {
				for _, dir := range []string{"forward", "reverse"} {
					for _, fc := range []string{"on", "bothnofc"} {
						for _, pt := range []string{"client.finish.afterDone", "client.finish.betweenPublish", "client.cancel.beforeReceiverCancel", "client.recv.beforeAccept", "cancel-frame-send", "cancel-on-receive-loop", "cancel-on-receive-loop", "cancel-on-receive-loop"} {
							for _, cause := range []string{"cancel", "deadline"} {
								if pt == "cancel-on-receive-loop" && cause == "deadline" {
									continue
								}
								for _, shape := range []string{"ServerStream", "Bidi", "Unary", "MidSend"} {
									cfg := WorldCfg{Dir: dir}
									if fc == "bothnofc" {
										cfg.ClientNoFC, cfg.ServerNoFC = true, true
									}
									out = append(out, Case{Family: "finishwindow", Seed: rng.Int63(), Cfg: cfg,
										S: map[string]string{"point": pt, "cause": cause, "shape": shape}, P: map[string]int{"msgs": 1 + rng.Intn(3), "when": rng.Intn(3)}})
								}
							}
						}
					}
				}
			}
			return out
		}
	}
	add("C07", 1, 40)
	add("C01", 1, 40)
	// closewindow: the handler ends a client-streaming / bidi RPC (status + trailers) before the
	// caller has half-closed; the caller's CloseSend lands while the receive loop is inside the
	// finish path. If CloseSend reports the RPC's terminal status (CloseAndRecv hands it to the
	// application verbatim), the trailers are available from that moment on (C02).
	families["closewindow"] = famCloseWindow
	addCW := func(id string, quickReps, thoroughReps int) {
		prev := listers[id]
		listers[id] = func(tier string, seed int64) []Case {
			out := prev(tier, seed)
			rng := rand.New(rand.NewSource(seed*1361 + 909))
			reps := quickReps
			if tier == "thorough" {
				reps = thoroughReps
			}
			for r := 0; r < reps; r++ {
				for _, dir := range []string{"forward", "reverse"} {
					for _, fc := range []bool{true, false} {
						for _, pt := range []string{"client.finish.afterDone", "client.finish.betweenPublish", "client.recv.beforeAccept"} {
							for _, shape := range []string{"ClientStream", "Bidi"} {
								for when := 0; when < 3; when++ {
									cfg := WorldCfg{Dir: dir}
									if !fc {
										cfg.ClientNoFC, cfg.ServerNoFC = true, true
									}
									out = append(out, Case{Family: "closewindow", Seed: rng.Int63(), Cfg: cfg, S: map[string]string{"point": pt, "shape": shape}, P: map[string]int{"when": when, "code": 1 + rng.Intn(16)}})
								}
							}
						}
					}
				}
			}
			return out
		}
	}
	addCW("C02", 1, 30)
	addCW("C07", 1, 30)
}

func famFinishWindow(w *World, c *Case, rng *rand.Rand) {
	if err := w.Open(nil); err != nil {
		w.Violate("C11", "open-failed", "opening the tunnel failed in configuration %s: %v", w.Cfg, err)
		w.Finish()
		return
	}
	point, cause, shape := c.s("point", "client.finish.afterDone"), c.s("cause", "cancel"), c.s("shape", "ServerStream")
	n := c.p("msgs", 2)
	w.SigExtra = fmt.Sprintf("%s/%s/%s/%d/%d", point, cause, shape, n, c.p("when", 0))
	// the first arrival at the point is held for a millisecond of virtual time
	var s *RPCSpec
	if point == "cancel-on-receive-loop" {
		// the caller's cancellation takes effect on the receive loop's own goroutine, the moment
		// the loop has taken frame number h of the RPC's responses off the carrier (a cancel
		// function called from a callback the loop runs would do that): the loop goes on to
		// deliver that frame and the ones behind it, the close frame included, before the
		// goroutine that watches the caller's context gets to run - the race the RPC's normal
		// completion wins
		h := (c.p("when", 0) + c.p("msgs", 2)) % 5
		w.installYield(&YieldPlan{Fn: func(p string, n int) {
			if p == "client.recv.gotFrame" && n == h && s != nil && s.cancel != nil {
				w.Stat("finishwindow_cancelled_on_receive_loop", 1)
				s.cancel()
			}
		}})
	} else if point == "cancel-frame-send" {
		// the detached goroutine that puts the cancel frame on the carrier is scheduled late
		w.installYield(&YieldPlan{Fn: func(p string, n int) {
			if p == "carrier.send.beforeLock" && callerHas("cancelStream.func") {
				w.Stat("finishwindow_cancel_frame_delayed", 1)
				time.Sleep(50 * time.Millisecond) // (the handler starts reading after 10 ms)
			}
		}})
	} else {
		w.installYield(&YieldPlan{Parks: map[string][]time.Duration{point: {time.Millisecond}}})
	}
	trl := metadata.MD{"t": {"1", "2"}}
	switch shape {
	case "MidSend":
		// the caller is blocked in the middle of a message larger than the window (the handler reads
		// only later) when the cancellation strikes; like any application with a deferred CloseSend it
		// then half-closes, and drains
		s = &RPCSpec{ID: "fw", Method: "ClientStream",
			Client:  []Op{{K: "open"}, {K: "send", N: 1000}, {K: "send", N: 100000}, {K: "close"}, {K: "sync", Name: "drain"}, {K: "recvall"}},
			Handler: []Op{{K: "sync", Name: "drain"}, {K: "recvall"}, {K: "send", N: 3}, {K: "ret"}}}
	case "Unary":
		s = &RPCSpec{ID: "fw", Method: "Unary", UseTrailerOpt: true, UseHeaderOpt: true,
			Client:  []Op{{K: "invoke", N: 10}},
			Handler: []Op{{K: "recv"}, {K: "settrl", MD: trl}, {K: "send", N: genSize(rng, 30000)}, {K: "ret"}}}
	default:
		hd := []Op{{K: "recv"}, {K: "settrl", MD: trl}}
		for i := 0; i < n; i++ {
			hd = append(hd, Op{K: "send", N: genSize(rng, 12000)})
		}
		hd = append(hd, Op{K: "ret", Code: codes.OK})
		s = &RPCSpec{ID: "fw", Method: shape,
			Client:  []Op{{K: "open"}, {K: "send", N: 10}, {K: "close"}, {K: "sync", Name: "drain"}, {K: "recvall"}, {K: "trailer"}},
			Handler: hd}
	}
	if cause == "deadline" {
		// expires while the receive loop is held
		s.Timeout = time.Duration(300+200*c.p("when", 0)) * time.Microsecond
	}
	w.Env.StartRPC(w.RootCtx, w.Ch, s)
	if cause == "cancel" && point != "cancel-on-receive-loop" {
		time.Sleep(time.Duration(300+200*c.p("when", 0)) * time.Microsecond)
		s.cancel()
	}
	w.Advance(10 * time.Millisecond)
	w.Env.Signal("drain")
	w.Advance(time.Second)
	w.yield.mu.Lock()
	held := w.yield.Hits[point] > 0 || point == "cancel-frame-send" || point == "cancel-on-receive-loop"
	w.yield.mu.Unlock()
	if held {
		w.Stat("finishwindow_held", 1)
	}
	for _, r := range w.Env.Log.OpenOps() {
		w.Violate("C04", "op-hangs:"+r.Side+":"+r.K, "finishwindow %s: %s %s[%d] never returned", w.SigExtra, r.Side, r.K, r.Idx)
	}
	v := buildViews(w.Env)["fw"]
	if t := clientTerminal(v); t != nil {
		cancelled := t.Code == codes.Canceled || t.Code == codes.DeadlineExceeded
		normalOK := (t.K == "invoke" && t.Err == "") || (t.K == "recv" && t.EOF)
		switch {
		case normalOK:
			w.Stat("finishwindow_normal_outcome", 1)
			okSends, got := 0, 0
			for _, sd := range v.hdlSends {
				if sd.RetSeq != 0 && sd.Err == "" {
					okSends++
				}
			}
			for _, r := range v.cliRecvs {
				if r.RetSeq != 0 && r.Err == "" {
					got++
				}
			}
			if v.invoke != nil && v.invoke.Err == "" {
				got++
			}
			if got != okSends {
				w.Violate("C07", "mixed-outcome:missing-data", "finishwindow %s: the caller was told the RPC ended normally after %d message(s); the handler had sent %d", w.SigExtra, got, okSends)
			}
			want := mdString(trl)
			for _, r := range v.all {
				if r.Side == "client" && r.K == "trailer" && r.RetSeq != 0 && r.CallSeq > t.RetSeq && mdString(r.MD) != want {
					w.Violate("C07", "mixed-outcome:missing-trailers", "finishwindow %s: normal outcome but Trailer() = %s", w.SigExtra, mdString(r.MD))
				}
				if r.Side == "client" && r.K == "invoke" && r.Err == "" && r.Extra["trl_opt"] != want {
					w.Violate("C07", "mixed-outcome:missing-trailers", "finishwindow %s: Invoke succeeded but the grpc.Trailer target = %s", w.SigExtra, r.Extra["trl_opt"])
				}
			}
		case cancelled:
			w.Stat("finishwindow_cancelled_outcome", 1)
		default:
			w.Violate("C07", "neither-legal-outcome", "finishwindow %s: the caller got %q: neither Canceled/DeadlineExceeded nor the handler's outcome", w.SigExtra, t.Err)
		}
	} else {
		w.Violate("C07", "no-terminal-result", "finishwindow %s: no terminal result", w.SigExtra)
	}
	w.CheckDelivery()
	w.Stat("finishwindow_runs", 1)
	w.Finish()
}

func famCloseWindow(w *World, c *Case, rng *rand.Rand) {
	if err := w.Open(nil); err != nil {
		w.Violate("C11", "open-failed", "opening the tunnel failed in configuration %s: %v", w.Cfg, err)
		w.Finish()
		return
	}
	point, shape := c.s("point", "client.finish.afterDone"), c.s("shape", "ClientStream")
	code := codes.Code(c.p("code", 9))
	w.SigExtra = fmt.Sprintf("%s/%s/%d/%v", point, shape, c.p("when", 0), code)
	// the frame that ends the RPC is the close frame; for the beforeAccept point the headers frame
	// precedes it, so the second arrival is held there
	parks := []time.Duration{time.Millisecond}
	if point == "client.recv.beforeAccept" {
		parks = []time.Duration{0, time.Millisecond}
	}
	w.installYield(&YieldPlan{Parks: map[string][]time.Duration{point: parks}})
	trl := metadata.MD{"t": {"1", "2"}, "u-bin": {"x"}}
	s := &RPCSpec{ID: "cw", Method: shape,
		Client:  []Op{{K: "open"}, {K: "send", N: 100}, {K: "sleep", D: time.Duration(300+300*c.p("when", 0)) * time.Microsecond}, {K: "close"}, {K: "trailer"}, {K: "recvall"}, {K: "trailer"}},
		Handler: []Op{{K: "recv"}, {K: "sethdr", MD: metadata.MD{"h": {"1"}}}, {K: "settrl", MD: trl}, {K: "ret", Code: code, Msg: "ended early"}}}
	w.Env.StartRPC(w.RootCtx, w.Ch, s)
	w.Advance(time.Second)
	for _, r := range w.Env.Log.OpenOps() {
		w.Violate("C04", "op-hangs:"+r.Side+":"+r.K, "closewindow %s: %s %s[%d] never returned", w.SigExtra, r.Side, r.K, r.Idx)
	}
	v := buildViews(w.Env)["cw"]
	want := mdString(trl)
	terminalSeq := int64(0)
	for _, r := range v.all {
		if r.Side != "client" || r.RetSeq == 0 {
			continue
		}
		switch {
		case terminalSeq == 0 && r.K == "close" && r.Err != "" && r.Code == code && r.StatusMsg == "ended early":
			// CloseSend reported the RPC's terminal status
			terminalSeq = r.RetSeq
			w.Stat("closewindow_closesend_reported_terminal_status", 1)
		case terminalSeq == 0 && r.K == "recv" && r.Err != "":
			terminalSeq = r.RetSeq
		case r.K == "trailer" && terminalSeq != 0 && r.CallSeq > terminalSeq:
			w.Stat("closewindow_trailer_reads_after_terminal", 1)
			if mdString(r.MD) != want {
				w.Violate("C02", "wrong-trailers", "closewindow %s: Trailer() called after the terminal result had been returned to the caller = %s, the handler set %s", w.SigExtra, mdString(r.MD), want)
			}
		}
	}
	w.Stat("closewindow_runs", 1)
	w.Finish()
}
