package h

// Offline oracles over the API-boundary log: delivery (C01) and outcome (C02).

import (
	"fmt"
	"sort"
	"strings"

	"google.golang.org/grpc/codes"
	"google.golang.org/grpc/metadata"
)

type rpcView struct {
	id       string
	spec     *RPCSpec
	cliSends []OpRec // client send / invoke (request submissions) by MsgIdx
	hdlSends []OpRec // handler send / send-unary-resp
	cliRecvs []OpRec // client recv, in call order (returned ones only)
	hdlRecvs []OpRec
	invoke   *OpRec
	open     *OpRec
	closeOp  *OpRec
	ret      *OpRec
	all      []OpRec
}

func buildViews(env *Env) map[string]*rpcView {
	recs := env.Log.Records()
	sort.Slice(recs, func(i, j int) bool { return recs[i].CallSeq < recs[j].CallSeq })
	views := map[string]*rpcView{}
	for _, r := range recs {
		v := views[r.RPC]
		if v == nil {
			v = &rpcView{id: r.RPC, spec: env.spec(r.RPC)}
			views[r.RPC] = v
		}
		v.all = append(v.all, r)
		r := r
		switch {
		case r.Side == "client" && r.K == "invoke":
			v.invoke = &r
			v.cliSends = append(v.cliSends, r)
		case r.Side == "client" && r.K == "send":
			v.cliSends = append(v.cliSends, r)
		case r.Side == "client" && r.K == "recv":
			v.cliRecvs = append(v.cliRecvs, r)
		case r.Side == "client" && r.K == "open":
			v.open = &r
		case r.Side == "client" && r.K == "close":
			v.closeOp = &r
		case r.Side == "handler" && (r.K == "send" || r.K == "send-unary-resp"):
			v.hdlSends = append(v.hdlSends, r)
		case r.Side == "handler" && r.K == "recv":
			v.hdlRecvs = append(v.hdlRecvs, r)
		case r.Side == "handler" && r.K == "ret":
			v.ret = &r
		}
	}
	return views
}

// CheckDelivery applies the C01 oracle to every RPC in the log.
func (w *World) CheckDelivery() {
	views := buildViews(w.Env)
	for _, v := range views {
		w.checkDeliveryDir(v, "request", v.cliSends, v.hdlRecvs)
		resp := v.cliRecvs
		if v.invoke != nil && v.invoke.RetSeq != 0 && v.invoke.Err == "" {
			// a successful Invoke is one received response
			r := *v.invoke
			r.MsgIdx = 0
			resp = append([]OpRec{r}, resp...)
		}
		w.checkDeliveryDir(v, "response", v.hdlSends, resp)
		// a failed invoke delivers nothing to judge; a successful one must be complete:
		if v.invoke != nil && v.invoke.RetSeq != 0 && v.invoke.Err == "" {
			okSends := 0
			for _, s := range v.hdlSends {
				if s.RetSeq != 0 && s.Err == "" {
					okSends++
				}
			}
			if okSends != 1 {
				w.Violate("C01", "unary-ok-without-exactly-one-response", "rpc %s: Invoke returned nil but the handler submitted %d responses", v.id, okSends)
			}
		}
	}
}

func (w *World) checkDeliveryDir(v *rpcView, dir string, sends []OpRec, recvs []OpRec) {
	byIdx := map[int]OpRec{}
	for _, s := range sends {
		byIdx[s.MsgIdx] = s
	}
	got := 0
	for _, r := range recvs {
		if r.RetSeq == 0 {
			continue
		}
		if r.Err == "" {
			w.Stat("delivery_msgs_checked", 1)
			k := got
			got++
			s, ok := byIdx[k]
			if !ok || s.CallSeq > r.RetSeq {
				w.Violate("C01", "fabricated-message:"+dir, "rpc %s %s direction: receiver obtained message #%d (%d bytes) but only %d message(s) were ever submitted on this RPC", v.id, dir, k, r.GotSize, len(byIdx))
				continue
			}
			if r.GotSize != s.Size {
				w.Violate("C01", "wrong-size:"+dir, "rpc %s %s direction: message #%d received with %d bytes, submitted with %d", v.id, dir, k, r.GotSize, s.Size)
				continue
			}
			if !r.GotOK {
				w.Violate("C01", "wrong-bytes:"+dir, "rpc %s %s direction: message #%d (%d bytes) differs from the submitted bytes (sum %s)", v.id, dir, k, r.GotSize, r.Extra["sum"])
			}
			if s.Size > w.Stats["delivery_max_msg"] {
				w.mu.Lock()
				w.Stats["delivery_max_msg"] = s.Size
				w.mu.Unlock()
			}
			continue
		}
		if r.EOF {
			// normal end: everything successfully submitted must have been received
			w.Stat("delivery_eof_checked", 1)
			want := 0
			for _, s := range sends {
				if s.RetSeq != 0 && s.Err == "" && s.RetSeq < r.RetSeq {
					want++
				}
			}
			// for the request direction only sends that completed before the
			// client's half-close count; they all do (same actor, sequential).
			if dir == "request" && w.Wire.HalfClosedMidMessage(v.id) {
				// the last message the caller submitted was cut short (its SendMsg failed half-way) and
				// the request stream was then half-closed: that is not a normal end of the request stream
				w.Violate("C01", "truncated-message-reported-as-end-of-stream", "rpc %s: the handler was told end-of-stream after %d message(s) although the request stream had been half-closed in the middle of a message (the rest of that message was dropped silently)\n%s", v.id, got, dumpRecs(v.all))
			}
			if got < want {
				w.Violate("C01", "lost-message:"+dir, "rpc %s %s direction: receiver was told end-of-stream after %d message(s) but %d had been successfully submitted before\n%s", v.id, dir, got, want, dumpRecs(v.all))
			}
		}
	}
}

// CheckOutcome applies the C02 oracle: terminal status, headers, trailers.
func (w *World) CheckOutcome() {
	views := buildViews(w.Env)
	for _, v := range views {
		if v.ret == nil || v.spec == nil {
			continue
		}
		// handler's scripted outcome
		wantCode, wantMsg, wantDetails := v.ret.Code, v.ret.StatusMsg, v.ret.Details
		var wantHdr, wantTrl metadata.MD
		hdrKnown, trlKnown := true, true
		for _, r := range v.all {
			if r.Side != "handler" || r.RetSeq == 0 {
				continue
			}
			switch r.K {
			case "sethdr", "sendhdr":
				if r.Err == "" {
					wantHdr = metadata.Join(wantHdr, r.MD)
				} else {
					hdrKnown = false
				}
			case "settrl":
				wantTrl = metadata.Join(wantTrl, r.MD)
			}
		}
		_ = trlKnown
		// caller's terminal result: the first client op (invoke / recv) that returned a terminal value
		var term *OpRec
		terms := 0
		for i := range v.all {
			r := &v.all[i]
			if r.Side != "client" || r.RetSeq == 0 {
				continue
			}
			if r.K == "invoke" || (r.K == "recv" && r.Err != "") {
				if term == nil {
					term = r
				}
				terms++
			}
		}
		// For a method with a non-streaming response the generated stubs call RecvMsg
		// exactly once (CloseAndRecv / Invoke): that first call is the completion.
		if v.spec.Method == "ClientStream" || (v.spec.Method == "Unary" && v.invoke == nil) {
			for i := range v.all {
				r := &v.all[i]
				if r.Side == "client" && r.K == "recv" && r.RetSeq != 0 {
					if r.Err == "" && wantCode != codes.OK {
						w.Violate("C02", "error-status-reported-as-success", "rpc %s (%s): the handler returned %v but the caller's (single) RecvMsg returned a response and a nil error", v.id, v.spec.Method, wantCode)
					}
					break
				}
			}
		}
		if term == nil {
			continue
		}
		w.Stat("outcome_checked", 1)
		// Only judge when the caller did not itself cancel / time out and the tunnel was not torn down:
		// the scenario families that use this oracle guarantee that.
		gotCode := term.Code
		if term.EOF || (term.K == "invoke" && term.Err == "") {
			gotCode = codes.OK
		}
		if gotCode != wantCode {
			w.Violate("C02", "wrong-status-code", "rpc %s: caller got %v (%s), handler returned %v", v.id, gotCode, term.Err, wantCode)
		} else if wantCode != codes.OK {
			if term.StatusMsg != wantMsg {
				w.Violate("C02", "wrong-status-message", "rpc %s: caller got message %q, handler returned %q", v.id, term.StatusMsg, wantMsg)
			}
			if term.Details != wantDetails {
				w.Violate("C02", "wrong-status-details", "rpc %s: caller got %d detail(s), handler returned %d", v.id, term.Details, wantDetails)
			}
		}
		// every later terminal read must repeat the same result
		for i := range v.all {
			r := &v.all[i]
			if r.Side == "client" && r.RetSeq != 0 && r.K == "recv" && r.Err != "" && r.CallSeq > term.CallSeq {
				if r.Code != term.Code || r.EOF != term.EOF {
					w.Violate("C02", "second-terminal-result-differs", "rpc %s: a later Recv returned %q after the terminal result %q", v.id, r.Err, term.Err)
				}
			}
		}
		// headers: every header read that returned after the first response message or terminal result
		for i := range v.all {
			r := &v.all[i]
			if r.Side != "client" || r.RetSeq == 0 {
				continue
			}
			switch r.K {
			case "header":
				if r.Err == "" && hdrKnown {
					w.Stat("header_reads_checked", 1)
					if d := mdDiff(wantHdr, r.MD); d != "" {
						w.Violate("C02", "wrong-headers", "rpc %s: Header() returned %s, handler set %s (%s)", v.id, mdString(r.MD), mdString(wantHdr), d)
					}
				}
			case "trailer":
				if r.CallSeq > term.RetSeq {
					w.Stat("trailer_reads_checked", 1)
					if d := mdDiff(wantTrl, r.MD); d != "" {
						w.Violate("C02", "wrong-trailers", "rpc %s: Trailer() called after the terminal result returned %s, handler set %s (%s)", v.id, mdString(r.MD), mdString(wantTrl), d)
					}
					if s, ok := r.Extra["trl_opt"]; ok && s != mdString(normMD(wantTrl)) && !(len(wantTrl) == 0 && (s == "<nil>" || s == "")) {
						w.Violate("C02", "wrong-trailer-option-target", "rpc %s: grpc.Trailer target holds %s after the terminal result, handler set %s", v.id, s, mdString(wantTrl))
					}
					if s, ok := r.Extra["hdr_opt"]; ok && hdrKnown && s != mdString(normMD(wantHdr)) && !(len(wantHdr) == 0 && (s == "<nil>" || s == "")) {
						w.Violate("C02", "wrong-header-option-target", "rpc %s: grpc.Header target holds %s after the terminal result, handler set %s", v.id, s, mdString(wantHdr))
					}
				}
			case "invoke":
				if s, ok := r.Extra["trl_opt"]; ok && s != mdString(normMD(wantTrl)) && !(len(wantTrl) == 0 && (s == "<nil>" || s == "")) {
					w.Violate("C02", "wrong-trailer-option-target", "rpc %s: grpc.Trailer target holds %s after Invoke returned, handler set %s", v.id, s, mdString(wantTrl))
				}
				if s, ok := r.Extra["hdr_opt"]; ok && hdrKnown && s != mdString(normMD(wantHdr)) && !(len(wantHdr) == 0 && (s == "<nil>" || s == "")) {
					w.Violate("C02", "wrong-header-option-target", "rpc %s: grpc.Header target holds %s after Invoke returned, handler set %s", v.id, s, mdString(wantHdr))
				}
			}
		}
		// request metadata seen by the handler
		for i := range v.all {
			r := &v.all[i]
			if r.Side == "handler" && r.K == "ident" && r.RetSeq != 0 {
				want := metadata.MD{}
				if !v.spec.NoOutgoingMD {
					for k, vals := range v.spec.ReqMD {
						want[strings.ToLower(k)] = append([]string(nil), vals...)
					}
					want.Set("x-rpc", v.spec.ID)
					if v.spec.GrpcTimeout != "" {
						want.Set("grpc-timeout", strings.Split(v.spec.GrpcTimeout, "\x1f")...)
					}
				}
				for k, val := range v.spec.Creds {
					want.Append(k, val)
				}
				for k, val := range v.spec.Creds2 {
					want.Append(k, val)
				}
				w.Stat("request_md_checked", 1)
				if d := mdDiff(want, r.MD); d != "" {
					w.Violate("C02", "wrong-request-metadata", "rpc %s: handler saw request metadata %s, caller attached %s (%s)", v.id, mdString(r.MD), mdString(want), d)
				}
			}
		}
	}
}

func normMD(md metadata.MD) metadata.MD {
	if len(md) == 0 {
		return nil
	}
	return md
}

// mdDiff compares metadata as multisets per key with order within a key; nil and empty are equal.
func mdDiff(want, got metadata.MD) string {
	for k, wv := range want {
		gv := got[k]
		if len(wv) == 0 && len(gv) == 0 {
			continue
		}
		if len(gv) != len(wv) {
			return fmt.Sprintf("key %q: want %q got %q", k, wv, gv)
		}
		for i := range wv {
			if wv[i] != gv[i] {
				return fmt.Sprintf("key %q: want %q got %q", k, wv, gv)
			}
		}
	}
	for k, gv := range got {
		if _, ok := want[k]; !ok && len(gv) > 0 {
			return fmt.Sprintf("unexpected key %q=%q", k, gv)
		}
	}
	return ""
}

func dumpRecs(recs []OpRec) string {
	var b strings.Builder
	for _, r := range recs {
		fmt.Fprintf(&b, "  [%d..%d] %s %s %s size=%d got=%d err=%q\n", r.CallSeq, r.RetSeq, r.Actor, r.Side, r.K, r.Size, r.GotSize, r.Err)
	}
	return b.String()
}
