package h

// callbackcfg: the application configures only one of the two reverse-tunnel callbacks (or both,
// as a control). A few reverse tunnels are opened, used and ended in different ways (Stop at the
// serving end, Close of the channel at the handler's end, cancellation of the Serve context, a
// broken transport). Every tunnel produces exactly one call of each configured callback (C12).

import (
	"context"
	"fmt"
	"math/rand"
	"sync"
	"time"

	"google.golang.org/grpc/metadata"

	"github.com/jhump/grpctunnel"
	"github.com/jhump/grpctunnel/tunnelpb"
)

func init() { families["callbackcfg"] = famCallbackCfg }

func callbackCfgCases(tier string, seed int64) []Case {
	var out []Case
	rng := rand.New(rand.NewSource(seed*431 + 17))
	reps := 2
	if tier == "thorough" {
		reps = 40
	}
	for r := 0; r < reps; r++ {
		for cb := 0; cb < 3; cb++ {
			for _, fc := range []bool{true, false} {
				out = append(out, Case{Family: "callbackcfg", Seed: rng.Int63(), Cfg: WorldCfg{Dir: "reverse", ClientNoFC: !fc}, P: map[string]int{"cb": cb, "n": 2 + rng.Intn(4)}})
			}
		}
	}
	return out
}

func famCallbackCfg(w *World, c *Case, rng *rand.Rand) {
	cb, n := c.p("cb", 0), c.p("n", 3) // 0 both, 1 close only, 2 open only
	w.SigExtra = fmt.Sprintf("cb%d/n%d", cb, n)
	var mu sync.Mutex
	opens, closes := map[string]int{}, map[string]int{}
	ident := func(ch grpctunnel.TunnelChannel) string {
		md, _ := metadata.FromIncomingContext(ch.Context())
		if v := md.Get("x-ident"); len(v) > 0 {
			return v[0]
		}
		return "?"
	}
	opts := grpctunnel.TunnelServiceHandlerOptions{
		DisableFlowControl: w.Cfg.ClientNoFC,
		AffinityKey:        AffinityFromMD,
		OnReverseTunnelOpen: func(ch grpctunnel.TunnelChannel) {
			mu.Lock()
			opens[ident(ch)]++
			mu.Unlock()
		},
		OnReverseTunnelClose: func(ch grpctunnel.TunnelChannel) {
			mu.Lock()
			closes[ident(ch)]++
			mu.Unlock()
		},
	}
	switch cb {
	case 1:
		opts.OnReverseTunnelOpen = nil
	case 2:
		opts.OnReverseTunnelClose = nil
	}
	hd := grpctunnel.NewTunnelServiceHandler(opts)
	w.Handler = hd
	tunnelpb.RegisterTunnelServiceServer(w.Conn, hd.Service())
	w.Stub = tunnelpb.NewTunnelServiceClient(w.Conn)
	type tun struct {
		id     string
		rs     *grpctunnel.ReverseTunnelServer
		cancel context.CancelFunc
		link   *Link
	}
	var tuns []*tun
	for i := 0; i < n; i++ {
		t := &tun{id: fmt.Sprintf("cb%d", i)}
		t.rs = grpctunnel.NewReverseTunnelServer(w.Stub, w.serverOpts()...)
		desc, impl := NewSvc(w.Env, t.id)
		t.rs.RegisterService(desc, impl)
		w.mu.Lock()
		w.RevSrvs = append(w.RevSrvs, t.rs)
		w.mu.Unlock()
		md := metadata.Pairs("x-ident", t.id, "x-key", []string{"a", "b"}[i%2])
		var ctx context.Context
		ctx, t.cancel = context.WithCancel(metadata.NewOutgoingContext(w.RootCtx, md))
		nl := len(w.Conn.Links())
		w.startServe(t.rs, ctx, t.id)
		w.Advance(10 * time.Millisecond)
		if ls := w.Conn.Links(); len(ls) > nl {
			t.link = ls[nl]
		}
		tuns = append(tuns, t)
	}
	if got := len(hd.AllReverseTunnels()); got != n {
		w.Violate("C12", "enumeration-mismatch", "callback configuration %d: %d reverse tunnels were opened, AllReverseTunnels() lists %d", cb, n, got)
	}
	// one RPC per key, then end every tunnel in its own way
	for i, key := range []string{"a", "b"} {
		if i < n {
			sp := &RPCSpec{ID: fmt.Sprintf("r%d", i), Method: "Unary", Client: []Op{{K: "invoke", N: 10}}, Handler: []Op{{K: "recv"}, {K: "send", N: 5}, {K: "ret"}}}
			w.Env.StartRPC(context.Background(), hd.KeyAsChannel(key), sp)
		}
	}
	w.Advance(100 * time.Millisecond)
	for i, t := range tuns {
		switch (i + int(c.Seed&3)) % 4 {
		case 0:
			go t.rs.Stop()
		case 1:
			for _, ch := range hd.AllReverseTunnels() {
				if ident(ch) == t.id {
					ch.Close()
				}
			}
		case 2:
			t.cancel()
		case 3:
			if t.link != nil {
				t.link.Break()
			} else {
				t.cancel()
			}
		}
		w.Advance(50 * time.Millisecond)
	}
	w.Advance(time.Second)
	for _, t := range tuns {
		go t.rs.Stop()
		t.cancel()
	}
	w.Advance(time.Second)
	mu.Lock()
	for _, t := range tuns {
		wantOpens, wantCloses := 1, 1
		switch cb {
		case 1:
			wantOpens = 0
		case 2:
			wantCloses = 0
		}
		w.Stat("callbackcfg_tunnels", 1)
		if opens[t.id] != wantOpens || closes[t.id] != wantCloses {
			w.Violate("C12", "callback-count", "tunnel %s: %d open callback(s), %d close callback(s); callbacks configured (0 both, 1 close only, 2 open only): %d", t.id, opens[t.id], closes[t.id], cb)
		}
	}
	mu.Unlock()
	if got := len(hd.AllReverseTunnels()); got != 0 {
		w.Violate("C12", "all-reverse-tunnels-not-empty-at-end", "callback configuration %d: %d reverse tunnels listed after all were ended", cb, got)
	}
	w.mu.Lock()
	w.RevSrvs = nil
	w.mu.Unlock()
	w.Finish()
}
