package h

// C15 (engine E2): free-running stress with real parallelism under the race
// detector, over the in-memory carrier (with concurrency canaries) and over
// real grpc-go on loopback TCP. Randomised Gosched bursts and micro-sleeps at
// every yield point. The same API-boundary log is judged offline.

import (
	"context"
	"fmt"
	"math/rand"
	"runtime"
	"sync"
	"sync/atomic"
	"time"

	"google.golang.org/grpc/metadata"

	"github.com/jhump/grpctunnel"
	"github.com/jhump/grpctunnel/tunnelpb"
)

var freeFamilies = map[string]bool{"stress": true, "invokeclose": true}

func init() {
	families["stress"] = famStress
	families["invokeclose"] = famInvokeClose
	listers["C15"] = func(tier string, seed int64) []Case {
		var out []Case
		rng := rand.New(rand.NewSource(seed*401 + 15))
		n := 64
		if tier == "thorough" {
			n = 1600
		}
		for i := 0; i < n; i++ {
			cfg := WorldCfg{Dir: allDirs[i%6], Carrier: []string{"", "grpc"}[(i/6)%2]}
			if rng.Intn(4) == 0 {
				cfg.ClientNoFC, cfg.ServerNoFC = true, true
			}
			if cfg.Carrier == "" && rng.Intn(3) == 0 {
				cfg.CapFrames = 1 + rng.Intn(8)
			}
			out = append(out, Case{Family: "stress", Seed: rng.Int63(), Cfg: cfg, P: map[string]int{"g": []int{4, 16, 64}[rng.Intn(3)], "end": rng.Intn(3)}})
		}
		// unary calls with option targets racing with tunnel tear-down / cancellation
		m := 48
		if tier == "thorough" {
			m = 1200
		}
		for i := 0; i < m; i++ {
			cfg := WorldCfg{Dir: []string{"forward", "reverse"}[i%2], Carrier: []string{"", "grpc"}[(i/2)%2]}
			out = append(out, Case{Family: "invokeclose", Seed: rng.Int63(), Cfg: cfg, P: map[string]int{"how": i % 3}})
		}
		return out
	}
}

// famInvokeClose: many goroutines issue unary calls with grpc.Header /
// grpc.Trailer targets and read the targets as soon as Invoke has returned,
// while the tunnel is closed, stopped or the calls' contexts are cancelled.
func famInvokeClose(w *World, c *Case, rng *rand.Rand) {
	var jit atomic.Uint64
	jit.Store(uint64(rng.Int63()) | 1)
	w.installYield(&YieldPlan{Fn: func(point string, n int) {
		x := jit.Add(0x9e3779b97f4a7c15)
		x ^= x >> 29
		if x%8 == 0 {
			time.Sleep(time.Duration((x>>8)%200) * time.Microsecond)
		} else if x%8 == 1 {
			runtime.Gosched()
		}
	}})
	if err := w.Open(nil); err != nil {
		w.Violate("C11", "open-failed", "open: %v", err)
		w.Finish()
		return
	}
	how := c.p("how", 0)
	g := 16
	var wg sync.WaitGroup
	root, cancelAll := context.WithCancel(context.Background())
	var calls atomic.Int64
	for i := 0; i < g; i++ {
		wg.Add(1)
		go func(i int) {
			defer wg.Done()
			for j := 0; j < 40; j++ {
				s := &RPCSpec{ID: fmt.Sprintf("ic%d-%d", i, j), Method: "Unary", UseHeaderOpt: true, UseTrailerOpt: true,
					Client:  []Op{{K: "invoke", N: 2000}},
					Handler: []Op{{K: "sethdr", MD: metadata.MD{"h": {"1"}}}, {K: "recv"}, {K: "settrl", MD: metadata.MD{"t": {"2"}}}, {K: "send", N: 3000}, {K: "ret"}}}
				w.Env.StartRPC(root, w.Ch, s)
				<-s.done
				calls.Add(1)
				if s.ctx.Err() != nil || w.chanDone() {
					// a few more calls on the dead tunnel, then stop
					if j%5 == 4 {
						return
					}
				}
			}
		}(i)
	}
	time.Sleep(time.Duration(2+rng.Intn(25)) * time.Millisecond)
	switch how {
	case 0:
		if w.TCh != nil {
			w.TCh.Close()
		}
	case 1:
		cancelAll()
	default:
		if len(w.RevSrvs) > 0 {
			w.RevSrvs[0].Stop()
		} else if w.TCh != nil {
			w.TCh.Close()
		}
	}
	wg.Wait()
	cancelAll()
	w.Stat("invokeclose_runs", 1)
	w.Stat("invokeclose_calls", int(calls.Load()))
	w.CheckDelivery()
	w.Finish()
}

func (w *World) chanDone() bool {
	if w.TCh == nil {
		return false
	}
	select {
	case <-w.TCh.Done():
		return true
	default:
		return false
	}
}

func famStress(w *World, c *Case, rng *rand.Rand) {
	var jit atomic.Uint64
	jit.Store(uint64(rng.Int63()) | 1)
	w.installYield(&YieldPlan{Fn: func(point string, n int) {
		x := jit.Add(0x9e3779b97f4a7c15)
		x ^= x >> 29
		switch x % 16 {
		case 0, 1, 2:
			for i := uint64(0); i < (x>>8)%6; i++ {
				runtime.Gosched()
			}
		case 3:
			time.Sleep(time.Duration((x>>8)%300) * time.Microsecond)
		}
	}})
	if err := w.Open(genMD(rng, "open")); err != nil {
		w.Violate("C11", "open-failed", "opening the tunnel failed in configuration %s: %v", w.Cfg, err)
		w.Finish()
		return
	}
	g := c.p("g", 8)
	per := 2 + rng.Intn(3)
	budget := 6 << 20
	o := ScriptOpts{FlowControl: w.Cfg.RevisionOne(), MaxMsgs: 3, MaxSize: 90000, Pacing: "eager", Status: true, Meta: true, BudgetLeft: &budget}
	specs := make([][]*RPCSpec, g)
	for i := 0; i < g; i++ {
		for j := 0; j < per; j++ {
			s := GenRPC(rng, fmt.Sprintf("g%d-%d", i, j), o)
			shuffleMeta(rng, s)
			specs[i] = append(specs[i], s)
		}
	}
	stop := make(chan struct{})
	var bg sync.WaitGroup
	// background: registry / accessor queries
	bg.Add(1)
	go func() {
		defer bg.Done()
		for {
			select {
			case <-stop:
				return
			default:
			}
			if w.Handler != nil {
				_ = w.Handler.AllReverseTunnels()
				_ = w.Handler.AsChannel().Ready()
				_ = w.Handler.KeyAsChannel("k").Ready()
			}
			if w.TCh != nil {
				_ = w.TCh.Err()
				_ = w.TCh.Context()
				select {
				case <-w.TCh.Done():
				default:
				}
			}
			time.Sleep(200 * time.Microsecond)
		}
	}()
	// background: extra tunnels opened and closed on the same handler / stub
	bg.Add(1)
	go func() {
		defer bg.Done()
		for i := 0; ; i++ {
			select {
			case <-stop:
				return
			default:
			}
			ctx, cancel := context.WithCancel(metadata.AppendToOutgoingContext(context.Background(), "x-key", "k"))
			switch w.Cfg.Dir {
			case "forward", "nested-ff":
				if ch, err := grpctunnel.NewChannel(w.Stub, w.clientOpts()...).Start(ctx); err == nil {
					s := &RPCSpec{ID: fmt.Sprintf("x%d", i), Method: "Unary", Client: []Op{{K: "invoke", N: 100}}, Handler: []Op{{K: "recv"}, {K: "send", N: 100}, {K: "ret"}}}
					w.Env.StartRPC(context.Background(), ch, s)
					<-s.done
					ch.Close()
				}
			default:
				rs := grpctunnel.NewReverseTunnelServer(w.Stub, w.serverOpts()...)
				desc, impl := NewSvc(w.Env, fmt.Sprintf("extra-%d", i))
				rs.RegisterService(desc, impl)
				done := make(chan struct{})
				go func() { _, _ = rs.Serve(ctx); close(done) }()
				time.Sleep(time.Duration(200+i%7*100) * time.Microsecond)
				if i%2 == 0 {
					rs.Stop()
				} else {
					gs := make(chan struct{})
					go func() { rs.GracefulStop(); close(gs) }()
					time.Sleep(100 * time.Microsecond)
					cancel() // nothing ends a drained tunnel (known finding): end it through the context
					<-gs
				}
				<-done
			}
			cancel()
		}
	}()
	var wg sync.WaitGroup
	endMode := c.p("end", 0)
	for i := 0; i < g; i++ {
		wg.Add(1)
		go func(i int) {
			defer wg.Done()
			for _, s := range specs[i] {
				w.Env.StartRPC(context.Background(), w.Ch, s)
				<-s.done
			}
		}(i)
	}
	if endMode == 2 {
		// tear the tunnel down while RPCs are running
		time.Sleep(time.Duration(1+rng.Intn(20)) * time.Millisecond)
		var td sync.WaitGroup
		for k := 0; k < 3; k++ {
			td.Add(1)
			go func() {
				defer td.Done()
				if w.TCh != nil {
					w.TCh.Close()
				}
				for _, rs := range w.RevSrvs {
					rs.Stop()
				}
			}()
		}
		td.Wait()
	}
	wg.Wait()
	if endMode == 1 && w.Handler != nil {
		w.Handler.InitiateShutdown()
	}
	close(stop)
	bg.Wait()
	w.Stat("stress_runs", 1)
	w.Stat("stress_rpcs", g*per)
	if endMode != 2 {
		for _, r := range w.Env.Log.OpenOps() {
			w.Violate("C15", "operation-never-returned", "operation %s %s of rpc %s did not return in a free-running run (%s)", r.Side, r.K, r.RPC, w.Cfg)
		}
		w.CheckDelivery()
		w.CheckOutcome()
	} else {
		w.CheckDelivery()
	}
	w.Finish()
}

var _ = tunnelpb.ProtocolRevision_REVISION_ONE

// ---- closerace: Close() while a frame write is parked inside the carrier ----

func init() {
	families["closerace"] = famCloseRace
	freeFamilies["closerace"] = true
	prev := listers["C15"]
	listers["C15"] = func(tier string, seed int64) []Case {
		out := prev(tier, seed)
		rng := rand.New(rand.NewSource(seed*409 + 151))
		n := 12
		if tier == "thorough" {
			n = 400
		}
		for i := 0; i < n; i++ {
			cfg := WorldCfg{Dir: "forward", CapFrames: 1}
			if i%4 == 3 {
				cfg.ClientNoFC, cfg.ServerNoFC = true, true
			}
			out = append(out, Case{Family: "closerace", Seed: rng.Int63(), Cfg: cfg, P: map[string]int{"what": i % 3}})
		}
		return out
	}
}

// famCloseRace: RPC A's request write is parked inside the (bounded, held)
// carrier; another goroutine closes the channel (or queries it); meanwhile the
// peer completes RPC B, whose frames the receive loop must still deliver, and
// Err()/Done() must stay responsive. Real-time steps, forward tunnels.
func famCloseRace(w *World, c *Case, rng *rand.Rand) {
	if err := w.Open(nil); err != nil {
		w.Violate("C11", "open-failed", "open: %v", err)
		w.Finish()
		return
	}
	w.Conn.SetGated(true)
	var holdToServer, stop atomic.Bool
	pump := make(chan struct{})
	go func() {
		defer close(pump)
		for !stop.Load() {
			for _, l := range w.Conn.Links() {
				l.Release(S2C, 100)
				if !holdToServer.Load() {
					l.Release(C2S, 100)
				}
			}
			time.Sleep(100 * time.Microsecond)
		}
	}()
	step := func() { time.Sleep(4 * time.Millisecond) }
	// event-based synchronisation (bounded polling), so that a slow machine changes nothing
	opState := func(rpc, side, k string) (open, returned bool) {
		for _, r := range w.Env.Log.Records() {
			if r.RPC == rpc && r.Side == side && r.K == k {
				if r.RetSeq == 0 {
					open = true
				} else {
					returned = true
				}
			}
		}
		return
	}
	waitFor := func(cond func() bool) bool {
		for i := 0; i < 5000; i++ {
			if cond() {
				return true
			}
			time.Sleep(time.Millisecond)
		}
		return false
	}
	b := &RPCSpec{ID: "b", Method: "ServerStream", Client: []Op{{K: "open"}, {K: "send", N: 5}, {K: "close"}, {K: "recvall"}, {K: "trailer"}},
		Handler: []Op{{K: "recv"}, {K: "sync", Name: "go"}, {K: "settrl", MD: metadata.MD{"t": {"1"}}}, {K: "ret"}}}
	w.Env.StartRPC(context.Background(), w.Ch, b)
	if !waitFor(func() bool { _, ret := opState("b", "handler", "recv"); return ret }) {
		w.Note("closerace: b's handler never received its request; scenario not reached")
		stop.Store(true)
		<-pump
		w.Finish()
		return
	}
	step()
	holdToServer.Store(true)
	a := &RPCSpec{ID: "a", Method: "ClientStream", Client: []Op{{K: "open"}, {K: "send", N: 40000}, {K: "close"}, {K: "recvall"}}, Handler: []Op{{K: "recvall"}, {K: "ret"}}}
	w.Env.StartRPC(context.Background(), w.Ch, a)
	if !waitFor(func() bool { open, _ := opState("a", "client", "send"); return open }) {
		w.Note("closerace: a's send never started; scenario not reached")
		stop.Store(true)
		<-pump
		w.Finish()
		return
	}
	step()
	what := c.p("what", 0)
	closed := make(chan struct{})
	go func() {
		defer close(closed)
		switch what {
		case 0, 1:
			w.TCh.Close()
		}
	}()
	step()
	// the peer completes B (its handler returns; headers + close travel to the client)
	w.Env.Signal("go")
	step()
	step()
	w.Stat("closerace_runs", 1)
	// Err() / Done() must answer although a write is parked and Close() is in progress
	errDone := make(chan struct{})
	go func() { _ = w.TCh.Err(); close(errDone) }()
	select {
	case <-errDone:
	case <-time.After(2 * time.Second):
		w.Violate("C15", "channel-query-blocked-by-parked-write", "Err() did not return within 2 s while a frame write was parked inside the carrier and Close() was called")
	}
	// B's outcome must have been delivered by the receive loop (OK, or Canceled if Close() got there first)
	// (polled for up to 3 s of real time so that a loaded machine cannot cause an alarm; with the
	// receive loop blocked it never arrives while the write stays parked)
	delivered := false
	for i := 0; i < 1500 && !delivered; i++ {
		for _, r := range w.Env.Log.Records() {
			if r.RPC == "b" && r.Side == "client" && r.K == "recv" && r.RetSeq != 0 {
				delivered = true
			}
		}
		if !delivered {
			time.Sleep(2 * time.Millisecond)
		}
	}
	if !delivered {
		diag := ""
		for _, o := range w.Env.Log.OpenOps() {
			diag += fmt.Sprintf(" [%s %s %s]", o.RPC, o.Side, o.K)
		}
		for _, l := range w.Conn.Links() {
			a, ar := l.Pending(C2S)
			b, br := l.Pending(S2C)
			diag += fmt.Sprintf(" link%d c2s=%d/%d s2c=%d/%d", l.ID, a, ar, b, br)
		}
		_, stacks := LibGoroutines()
		sites := map[string]int{}
		for _, g := range stacks {
			sites[leakSite(g)]++
		}
		w.Violate("C15", "receive-loop-blocked-by-close", "while a frame write of RPC a was parked inside the carrier and Close() was in progress, RPC b's result (already sent by the peer) was not delivered to its caller within 3 s; open ops:%s; library goroutines by innermost function: %v", diag, sites)
	}
	holdToServer.Store(false)
	step()
	select {
	case <-closed:
	case <-time.After(5 * time.Second):
		w.Violate("C15", "close-never-returns", "Close() did not return within 5 s after the carrier was released")
	}
	w.Conn.SetGated(false)
	for _, l := range w.Conn.Links() {
		l.ReleaseAll()
	}
	step()
	stop.Store(true)
	<-pump
	w.Finish()
}
