package h

// C06: enforcement side. A raw tunnel client overruns the advertised window of
// one stream in many ways; that RPC must fail with ResourceExhausted, the
// bystander and the tunnel must be unaffected, and memory must stay bounded.
// (The sender side of C06 is the WindowMonitor, which runs on every frame of
// every scenario; the C06 case list is a union of the other checks' workloads.)

import (
	"fmt"
	"math"
	"math/rand"
	"runtime"
	"strings"
	"time"

	"google.golang.org/grpc/codes"

	"github.com/jhump/grpctunnel/tunnelpb"
)

var overrunKinds = []string{"exact-window", "plus1", "plus-chunk", "many-windows", "mid-message", "after-credit-exact", "after-credit-plus1", "second-stream", "one-huge-frame", "flood-32MiB", "deadline-then-plus1", "deadline-then-windows", "understated-envelopes", "understated-after-data"}

func init() {
	families["overrun"] = famOverrun
	listers["C06"] = func(tier string, seed int64) []Case {
		out := overrunCases(tier, seed)
		// client role overruns
		for _, c := range listers["C09"](tier, seed) {
			if c.Family == "rawsrv" && (c.S["dev"] == "overrun" || c.S["dev"] == "overrun-one-frame") {
				out = append(out, c)
			}
		}
		// peers that advertise a window other than the library's own 64 KiB (settings variants win1 /
		// win100 / win16384 / winmax; raw clients advertising 0 / 10 / 20000 bytes per stream)
		for _, c := range listers["C11"](tier, seed) {
			if c.Family == "settings" && strings.HasPrefix(c.S["variant"], "win") {
				out = append(out, c)
			}
		}
		for _, c := range listers["C09"](tier, seed) {
			if c.Family == "blockedsend" {
				out = append(out, c)
			}
		}
		// the invariant side: stratified union of the other workloads (window monitor on every frame)
		out = append(out, stratify(listers["C01"](tier, seed), 2)...)
		out = append(out, stratify(listers["C05"](tier, seed), 2)...)
		out = append(out, stratify(listers["C03"](tier, seed), 4)...)
		out = append(out, stratify(listers["C07"](tier, seed), 8)...)
		out = append(out, stratify(listers["C04"](tier, seed), 8)...)
		return out
	}
}

func overrunCases(tier string, seed int64) []Case {
	var out []Case
	rng := rand.New(rand.NewSource(seed*1999 + 6))
	reps := 4
	if tier == "thorough" {
		reps = 60
	}
	// the window the raw client announces for the opposite direction in its
	// new_stream frame: it must have no bearing on what the server accepts
	announce := []int{65536, 1 << 24, math.MaxUint32, 1000}
	for r := 0; r < reps; r++ {
		for _, k := range overrunKinds {
			for _, dir := range []string{"forward", "reverse"} {
				if k == "flood-32MiB" && r > 0 && r%10 != 0 {
					continue
				}
				out = append(out, Case{Family: "overrun", Seed: rng.Int63(), Cfg: WorldCfg{Dir: dir}, S: map[string]string{"kind": k}, P: map[string]int{"announce": announce[r%len(announce)]}})
			}
		}
	}
	return out
}

func stratify(cs []Case, every int) []Case {
	var out []Case
	for i, c := range cs {
		if i%every == 0 {
			out = append(out, c)
		}
	}
	return out
}

func famOverrun(w *World, c *Case, rng *rand.Rand) {
	kind := c.s("kind", "plus1")
	w.SigExtra = fmt.Sprintf("%s/announce%d", kind, c.p("announce", 65536))
	w.Wire.JudgeClient = false
	w.Window.JudgeClient = false
	rc, err := w.OpenRawClient(true, false)
	if err != nil {
		w.Violate("C09", "raw-open-failed", "raw client could not open the tunnel: %v", err)
		w.Finish()
		return
	}
	w.Wait()
	const W = 65536
	w.Env.registerSpec(&RPCSpec{ID: "by", Method: "Bidi", Handler: []Op{{K: "recv"}, {K: "send", N: 15}, {K: "recv"}, {K: "send", N: 16}, {K: "recv"}, {K: "ret"}}})
	w.Env.registerSpec(&RPCSpec{ID: "v", Method: "ClientStream", Handler: []Op{{K: "sync", Name: "read1"}, {K: "recv"}, {K: "sync", Name: "read2"}, {K: "recvall"}, {K: "send", N: 1}, {K: "ret"}}})
	w.Env.registerSpec(&RPCSpec{ID: "v2", Method: "ClientStream", Handler: []Op{{K: "recvall"}, {K: "send", N: 1}, {K: "ret"}}})
	send := func(f *tunnelpb.ClientToServer) { _ = rc.Send(f) }
	send(fNew(0, "verif.Svc/Bidi", "by", 1, W))
	for _, f := range msgFramesC2S(0, wrapBytes(GenPayload("by", dirReq, 0, 5)), 16384) {
		send(f)
	}
	nv := fNew(1, "verif.Svc/ClientStream", "v", 1, uint32(c.p("announce", W)))
	if strings.HasPrefix(kind, "deadline-") {
		// the RPC carries a deadline that expires while its handler is still running and not reading
		nv.GetNewStream().RequestHeaders.Md["grpc-timeout"] = &tunnelpb.Metadata_Values{Val: []string{"100m"}}
	}
	send(nv)
	w.Wait()
	// helper: send n bytes of well-formed message data on stream id as one message
	sendMsg := func(id int64, n int) {
		for _, f := range msgFramesC2S(id, make([]byte, n), 16384) {
			send(f)
		}
	}
	expectRE := true
	switch kind {
	case "exact-window":
		sendMsg(1, W)
		expectRE = false
	case "plus1":
		sendMsg(1, W+1)
	case "plus-chunk":
		sendMsg(1, W+16384)
	case "many-windows":
		sendMsg(1, 5*W)
	case "mid-message":
		sendMsg(1, 30000)
		sendMsg(1, 30000)
		sendMsg(1, 30000)
	case "after-credit-exact", "after-credit-plus1":
		sendMsg(1, 40000)
		w.Wait()
		w.Env.Signal("read1") // the handler reads the first message: 40000 bytes of window return
		w.Wait()
		extra := 0
		if kind == "after-credit-plus1" {
			extra = 1
		}
		sendMsg(1, W+extra)
		expectRE = extra == 1
	case "second-stream":
		send(fNew(2, "verif.Svc/ClientStream", "v2", 1, W))
		sendMsg(2, 50000)
		send(fHalf(2))
		sendMsg(1, W+1)
	case "one-huge-frame":
		send(fMsg(1, uint32(W+5), make([]byte, W+5)))
	case "understated-envelopes", "understated-after-data":
		// the overrun is made of message frames that announce fewer bytes than they carry (size 0
		// or 1 with a full chunk of data): what counts against the window is what arrives
		if kind == "understated-after-data" {
			sendMsg(1, 40000)
		}
		for i := 0; i < 12; i++ {
			send(fMsg(1, uint32(i%2), make([]byte, 16384)))
		}
	case "deadline-then-plus1", "deadline-then-windows":
		// the window is filled exactly, the deadline passes (the handler keeps running), then the
		// peer goes on sending without any credit: the window is still enforced
		sendMsg(1, W)
		w.Advance(300 * time.Millisecond)
		if kind == "deadline-then-plus1" {
			sendMsg(1, 1)
		} else {
			sendMsg(1, 3*W)
		}
	case "flood-32MiB":
		runtime.GC()
		var m0, m1 runtime.MemStats
		runtime.ReadMemStats(&m0)
		chunk := make([]byte, 16384)
		total := 0
		send(fMsg(1, uint32(32<<20), chunk))
		for total = 16384; total < 32<<20; total += 16384 {
			send(fMore(1, chunk))
			if (total/16384)%64 == 0 {
				w.Wait()
			}
		}
		w.Wait()
		runtime.GC()
		runtime.ReadMemStats(&m1)
		growth := int64(m1.HeapAlloc) - int64(m0.HeapAlloc)
		w.Stat("flood_bytes", total)
		w.Stat("max_flood_heap_growth", int(growth))
		if growth > 8<<20 {
			w.Violate("C06", "memory-not-bounded-under-flood", "flooding %d MiB at a stream whose consumer never reads grew the live heap by %d MiB", total>>20, growth>>20)
			w.Violate("C09", "memory-not-bounded-under-flood", "flooding %d MiB at a stream whose consumer never reads grew the live heap by %d MiB", total>>20, growth>>20)
		}
	}
	w.Wait()
	// bystander goes on
	for _, f := range msgFramesC2S(0, wrapBytes(GenPayload("by", dirReq, 1, 6)), 16384) {
		send(f)
	}
	send(fHalf(0))
	w.Advance(time.Second)
	views, recvDone, recvErr := rc.Snapshot()
	w.Stat("overrun_runs", 1)
	v := views[1]
	if expectRE {
		w.Stat("overrun_expected_re", 1)
		if v.Closes != 1 || codes.Code(v.Close.GetStatus().GetCode()) != codes.ResourceExhausted {
			code := "none"
			if v.Close != nil {
				code = codes.Code(v.Close.GetStatus().GetCode()).String()
			}
			w.Violate("C06", "overrun-not-resource-exhausted", "overrun %s: the overrunning RPC got %d close frame(s), status %s; want exactly one ResourceExhausted", kind, v.Closes, code)
			w.Violate("C09", "hostile-overrun-not-refused", "overrun %s (announcing a window of %d for the other direction): the overrunning RPC got %d close frame(s), status %s; want exactly one ResourceExhausted", kind, c.p("announce", W), v.Closes, code)
		}
	} else {
		w.Stat("overrun_expected_ok", 1)
		if v.Closes != 0 {
			w.Violate("C06", "window-sized-data-rejected", "%s: exactly one window of unread data was rejected (status %v)", kind, codes.Code(v.Close.GetStatus().GetCode()))
		}
	}
	if recvDone {
		w.Violate("C06", "overrun-ended-tunnel", "overrun %s ended the tunnel: %v", kind, recvErr)
		w.Violate("C03", "raw-deviation-killed-tunnel", "overrun %s ended the tunnel: %v", kind, recvErr)
	}
	b := views[0]
	if b.Closes != 1 || b.Close.GetStatus().GetCode() != 0 || len(b.Msgs) != 2 {
		w.Violate("C06", "overrun-disturbed-bystander", "overrun %s: bystander got closes=%d msgs=%d", kind, b.Closes, len(b.Msgs))
		w.Violate("C03", "raw-deviation-disturbed-bystander", "overrun %s: bystander got closes=%d msgs=%d", kind, b.Closes, len(b.Msgs))
	}
	if kind == "second-stream" {
		v2 := views[2]
		if v2.Closes != 1 || v2.Close.GetStatus().GetCode() != 0 {
			w.Violate("C06", "overrun-disturbed-bystander", "overrun on stream 1 disturbed stream 2 (closes=%d)", v2.Closes)
		}
	}
	w.Env.Signal("read1")
	w.Env.Signal("read2")
	w.Advance(time.Second)
	if !expectRE {
		// the window-sized message must be delivered intact once the handler reads
		send(fHalf(1))
		w.Advance(time.Second)
		views, _, _ = rc.Snapshot()
		if v := views[1]; v.Closes != 1 || v.Close.GetStatus().GetCode() != 0 {
			w.Violate("C06", "window-sized-data-rejected", "%s: stream did not complete normally after the handler read (closes=%d)", kind, v.Closes)
		}
	}
	rc.Hangup()
	w.Advance(time.Second)
	_ = fmt.Sprint
	w.Finish()
}
