package h

// C08: many goroutines start RPCs at once (mixed shapes, some failing at
// start) with scheduling jitter between id allocation and the new_stream send;
// the wire monitor judges id order, the invocation log judges one RPC <-> one
// handler invocation of the named method. Raw-peer id histories come from the
// C09 conversation generator.

import (
	"context"
	"fmt"
	"math/rand"
	"runtime"
	"sync"
	"sync/atomic"
	"time"

	"google.golang.org/grpc/codes"
)

func init() {
	families["idstorm"] = famIDStorm
	listers["C08"] = func(tier string, seed int64) []Case {
		var out []Case
		rng := rand.New(rand.NewSource(seed*1013 + 8))
		n := 120
		if tier == "thorough" {
			n = 4000
		}
		for i := 0; i < n; i++ {
			cfg := WorldCfg{Dir: allDirs[rng.Intn(len(allDirs))], CapFrames: []int{0, 0, 1, 8}[rng.Intn(4)]}
			if rng.Intn(4) == 0 {
				cfg.ClientNoFC, cfg.ServerNoFC = true, true
			}
			out = append(out, Case{Family: "idstorm", Seed: rng.Int63(), Cfg: cfg, P: map[string]int{"g": []int{2, 4, 8, 16, 32, 64}[rng.Intn(6)]}})
		}
		for _, c := range listers["C09"](tier, seed) {
			if c.Family != "rawconv" {
				continue
			}
			switch c.S["dev"] {
			case "insert-new-reuse-last-finished", "insert-new-dup", "insert-new-lower", "insert-new-negative", "retarget-unknown", "retarget-finished", "retarget-negative", "insert-frame-unknown-id", "dup", "swap", "drop", "multi":
				out = append(out, c)
			}
		}
		return out
	}
}

type failingCreds struct{}

func (failingCreds) GetRequestMetadata(ctx context.Context, uri ...string) (map[string]string, error) {
	return nil, fmt.Errorf("credentials unavailable")
}
func (failingCreds) RequireTransportSecurity() bool { return false }

func famIDStorm(w *World, c *Case, rng *rand.Rand) {
	if err := w.Open(nil); err != nil {
		w.Violate("C11", "open-failed", "open: %v", err)
		w.Finish()
		return
	}
	g := c.p("g", 8)
	var jitter atomic.Int64
	jitter.Store(rng.Int63())
	w.installYield(&YieldPlan{Fn: func(point string, n int) {
		if point == "client.newStream.allocated" || point == "server.create.begin" {
			// scheduling jitter only: no parking while the creation lock is held
			x := jitter.Add(0x1e3779b97f4a7c15)
			for i := int64(0); i < (x>>57)&7; i++ {
				runtime.Gosched()
			}
		}
	}})
	var specs []*RPCSpec
	per := 1 + rng.Intn(3)
	o := ScriptOpts{MaxMsgs: 2, MaxSize: 20000, Pacing: "eager"}
	for i := 0; i < g*per; i++ {
		s := GenRPC(rng, fmt.Sprintf("s%d", i), o)
		switch rng.Intn(10) {
		case 0:
			s.Timeout = time.Nanosecond // context already expired at start: consumes no id or fails fast
		case 1:
			s.Creds = map[string]string{"k": "v"}
		}
		specs = append(specs, s)
	}
	// all goroutines start at once
	start := make(chan struct{})
	var wg sync.WaitGroup
	for i := 0; i < g; i++ {
		wg.Add(1)
		go func(i int) {
			defer wg.Done()
			<-start
			for j := 0; j < per; j++ {
				w.Env.StartRPC(context.Background(), w.Ch, specs[i*per+j])
			}
		}(i)
	}
	close(start)
	wg.Wait()
	w.Advance(time.Minute)
	w.Stat("idstorm_runs", 1)
	w.Stat("idstorm_rpcs", len(specs))
	// one RPC <-> one handler invocation of the named method
	inv := map[string][]Invocation{}
	for _, x := range w.Env.Log.Invocations {
		inv[x.RPC] = append(inv[x.RPC], x)
	}
	views := buildViews(w.Env)
	for _, s := range specs {
		v := views[s.ID]
		n := len(inv[s.ID])
		if n > 1 {
			w.Violate("C08", "rpc-invoked-twice", "rpc %s resulted in %d handler invocations", s.ID, n)
		}
		for _, x := range inv[s.ID] {
			if x.Method != s.Method {
				w.Violate("C08", "wrong-handler-invoked", "rpc %s (%s) invoked the %s handler", s.ID, s.Method, x.Method)
			}
		}
		if v == nil {
			continue
		}
		t := clientTerminal(v)
		if t != nil && ((t.K == "invoke" && t.Err == "") || (t.K == "recv" && t.EOF)) {
			w.Stat("idstorm_completed", 1)
			if n != 1 {
				w.Violate("C08", "completed-rpc-without-single-invocation", "rpc %s completed normally with %d handler invocations", s.ID, n)
			}
		} else if t != nil {
			w.Stat("idstorm_failed_at_start_or_later", 1)
			_ = codes.OK
		}
	}
	for tag := range inv {
		if w.Env.spec(tag) == nil {
			w.Violate("C08", "handler-invoked-for-unknown-rpc", "a handler was invoked with tag %q that no RPC carries", tag)
		}
	}
	for _, r := range w.Env.Log.OpenOps() {
		w.Violate("C05", "op-stuck-in-clean-run", "operation %s %s of rpc %s still blocked after a minute", r.Side, r.K, r.RPC)
	}
	w.CheckDelivery()
	w.CheckTables(w.TCh, 0, 0, true, "after id storm")
	w.Finish()
}
