package h

// C08: many goroutines start RPCs at once (mixed shapes, some failing at
// start) with scheduling jitter between id allocation and the new_stream send;
// the wire monitor judges id order, the invocation log judges one RPC <-> one
// handler invocation of the named method. Raw-peer id histories come from the
// C09 conversation generator.

import (
	"context"
	"fmt"
	"math/rand"
	"runtime"
	"sync"
	"sync/atomic"
	"time"

	"google.golang.org/grpc/codes"
)

func init() {
	families["idstorm"] = famIDStorm
	families["startcancel"] = famStartCancel
	families["staledrain"] = famStaleDrain
	listers["C08"] = func(tier string, seed int64) []Case {
		var out []Case
		rng := rand.New(rand.NewSource(seed*1013 + 8))
		n := 120
		if tier == "thorough" {
			n = 15000
		}
		for i := 0; i < n; i++ {
			cfg := WorldCfg{Dir: allDirs[rng.Intn(len(allDirs))], CapFrames: []int{0, 0, 1, 8}[rng.Intn(4)]}
			if rng.Intn(4) == 0 {
				cfg.ClientNoFC, cfg.ServerNoFC = true, true
			}
			out = append(out, Case{Family: "idstorm", Seed: rng.Int63(), Cfg: cfg, P: map[string]int{"g": []int{2, 4, 8, 16, 32, 64}[rng.Intn(6)]}})
		}
		// an RPC whose context ends at the very start, with the new_stream sender held back just
		// before it takes the carrier send lock (an unfair lock hand-off / a preemption there)
		reps := 1
		if tier == "thorough" {
			reps = 30
		}
		for r := 0; r < reps; r++ {
			for _, dir := range []string{"forward", "reverse"} {
				for _, shape := range []string{"Unary", "ClientStream", "ServerStream", "Bidi"} {
					for _, how := range []string{"already-cancelled", "expires-at-once", "already-expired", "cancel-after-open"} {
						for _, fc := range []bool{true, false} {
							for hit := 0; hit < 3; hit++ {
								cfg := WorldCfg{Dir: dir}
								if !fc {
									cfg.ClientNoFC, cfg.ServerNoFC = true, true
								}
								out = append(out, Case{Family: "startcancel", Seed: rng.Int63(), Cfg: cfg, P: map[string]int{"hit": hit}, S: map[string]string{"shape": shape, "how": how}})
							}
						}
					}
				}
			}
		}
		// stale identifiers while the server is draining (every new_stream is on a refusal path then)
		for r := 0; r < reps; r++ {
			for _, dir := range []string{"forward", "reverse"} {
				for _, which := range []string{"reuse-finished", "reuse-live", "lower", "negative", "equal-last", "fresh"} {
					out = append(out, Case{Family: "staledrain", Seed: rng.Int63(), Cfg: WorldCfg{Dir: dir}, S: map[string]string{"which": which}})
				}
			}
		}
		for _, c := range listers["C09"](tier, seed) {
			if c.Family != "rawconv" {
				continue
			}
			switch c.S["dev"] {
			case "insert-new-reuse-last-finished", "insert-new-dup", "insert-new-dup-badrev", "insert-new-lower-badrev", "insert-new-negative-badrev", "insert-new-dup-badmethod", "insert-new-lower", "insert-new-negative", "retarget-unknown", "retarget-finished", "retarget-negative", "insert-frame-unknown-id", "dup", "swap", "drop", "multi":
				out = append(out, c)
			}
		}
		return out
	}
}

func famIDStorm(w *World, c *Case, rng *rand.Rand) {
	if err := w.Open(nil); err != nil {
		w.Violate("C11", "open-failed", "open: %v", err)
		w.Finish()
		return
	}
	g := c.p("g", 8)
	var jitter atomic.Int64
	jitter.Store(rng.Int63())
	w.installYield(&YieldPlan{Fn: func(point string, n int) {
		if point == "client.newStream.allocated" || point == "server.create.begin" || point == "carrier.send.beforeLock" {
			// scheduling jitter only: no parking while the creation lock is held
			x := jitter.Add(0x1e3779b97f4a7c15)
			for i := int64(0); i < (x>>57)&7; i++ {
				runtime.Gosched()
			}
		}
	}})
	var specs []*RPCSpec
	per := 1 + rng.Intn(3)
	o := ScriptOpts{FlowControl: w.Cfg.RevisionOne(), MaxMsgs: 2, MaxSize: 20000, Pacing: "eager"}
	for i := 0; i < g*per; i++ {
		s := GenRPC(rng, fmt.Sprintf("s%d", i), o)
		if rng.Intn(7) == 0 {
			// fails at its start, after a stream id was taken for it: the ids on the wire skip one
			s.FailCreds = []string{"error", "tls"}[rng.Intn(2)]
			w.Stat("idstorm_failing_credentials", 1)
		}
		switch rng.Intn(10) {
		case 0:
			s.Timeout = time.Nanosecond // context already expired at start: consumes no id or fails fast
		case 1:
			s.Creds = map[string]string{"k": "v"}
		}
		specs = append(specs, s)
	}
	// all goroutines start at once
	start := make(chan struct{})
	var wg sync.WaitGroup
	for i := 0; i < g; i++ {
		wg.Add(1)
		go func(i int) {
			defer wg.Done()
			<-start
			for j := 0; j < per; j++ {
				w.Env.StartRPC(context.Background(), w.Ch, specs[i*per+j])
			}
		}(i)
	}
	close(start)
	wg.Wait()
	w.Advance(time.Minute)
	w.Stat("idstorm_runs", 1)
	w.Stat("idstorm_rpcs", len(specs))
	// one RPC <-> one handler invocation of the named method
	inv := map[string][]Invocation{}
	for _, x := range w.Env.Log.Invocations {
		inv[x.RPC] = append(inv[x.RPC], x)
	}
	views := buildViews(w.Env)
	for _, s := range specs {
		v := views[s.ID]
		n := len(inv[s.ID])
		if n > 1 {
			w.Violate("C08", "rpc-invoked-twice", "rpc %s resulted in %d handler invocations", s.ID, n)
		}
		for _, x := range inv[s.ID] {
			if x.Method != s.Method {
				w.Violate("C08", "wrong-handler-invoked", "rpc %s (%s) invoked the %s handler", s.ID, s.Method, x.Method)
			}
		}
		if v == nil {
			continue
		}
		t := clientTerminal(v)
		if t != nil && ((t.K == "invoke" && t.Err == "") || (t.K == "recv" && t.EOF)) {
			w.Stat("idstorm_completed", 1)
			if n != 1 {
				w.Violate("C08", "completed-rpc-without-single-invocation", "rpc %s completed normally with %d handler invocations", s.ID, n)
			}
		} else if t != nil {
			w.Stat("idstorm_failed_at_start_or_later", 1)
			_ = codes.OK
		}
	}
	for tag := range inv {
		if w.Env.spec(tag) == nil {
			w.Violate("C08", "handler-invoked-for-unknown-rpc", "a handler was invoked with tag %q that no RPC carries", tag)
		}
	}
	for _, r := range w.Env.Log.OpenOps() {
		w.Violate("C05", "op-stuck-in-clean-run", "operation %s %s of rpc %s still blocked after a minute", r.Side, r.K, r.RPC)
	}
	w.CheckDelivery()
	w.CheckTables(w.TCh, 0, 0, true, "after id storm")
	w.CheckIdle("after id storm")
	w.Finish()
}

// famStartCancel: one RPC whose context is cancelled / expired at the very
// start; the n-th carrier send after the tunnel is up is parked just before it
// takes the send lock, so a later send (the cancel frame) can overtake it.
func famStartCancel(w *World, c *Case, rng *rand.Rand) {
	if err := w.Open(nil); err != nil {
		w.Violate("C11", "open-failed", "open: %v", err)
		w.Finish()
		return
	}
	shape, how, hit := c.s("shape", "Unary"), c.s("how", "already-cancelled"), c.p("hit", 0)
	w.SigExtra = fmt.Sprintf("%s/%s/%d", shape, how, hit)
	parks := make([]time.Duration, hit+1)
	parks[hit] = time.Millisecond
	// (client-side sends only: a parked server-side send would hold the stream's write lock, which
	// the server's receive loop takes when the cancel frame arrives)
	w.installYield(&YieldPlan{Parks: map[string][]time.Duration{"carrier.send.beforeLock": parks}, ParkIf: clientSideCaller})
	s := &RPCSpec{ID: "sc", Method: shape}
	switch shape {
	case "Unary":
		s.Client = []Op{{K: "invoke", N: 10}}
		s.Handler = []Op{{K: "recv"}, {K: "send", N: 5}, {K: "ret"}}
	case "ServerStream":
		s.Client = []Op{{K: "open"}, {K: "send", N: 10}, {K: "close"}, {K: "recvall"}}
		s.Handler = []Op{{K: "recv"}, {K: "send", N: 5}, {K: "ret"}}
	default:
		s.Client = []Op{{K: "open"}, {K: "send", N: 10}, {K: "close"}, {K: "recvall"}}
		s.Handler = []Op{{K: "recvall"}, {K: "send", N: 5}, {K: "ret"}}
	}
	ctx, cancel := context.WithCancel(context.Background())
	switch how {
	case "already-cancelled":
		cancel()
	case "expires-at-once":
		s.Timeout = time.Nanosecond
	case "already-expired":
		// the deadline has passed before the call is made
		var c2 context.CancelFunc
		ctx, c2 = context.WithTimeout(ctx, time.Microsecond)
		defer c2()
		time.Sleep(time.Millisecond)
	case "cancel-after-open":
		if shape != "Unary" {
			s.Client = append([]Op{s.Client[0], {K: "cancel"}}, s.Client[1:]...)
		} else {
			time.AfterFunc(500*time.Microsecond, cancel)
		}
	}
	w.Env.StartRPC(ctx, w.Ch, s)
	w.Advance(10 * time.Millisecond)
	cancel()
	// a bystander afterwards: the tunnel must still work
	by := &RPCSpec{ID: "after", Method: "Unary", Client: []Op{{K: "invoke", N: 10}}, Handler: []Op{{K: "recv"}, {K: "send", N: 5}, {K: "ret"}}}
	w.Env.StartRPC(context.Background(), w.Ch, by)
	w.Advance(10 * time.Millisecond)
	w.Stat("startcancel_runs", 1)
	v := buildViews(w.Env)["after"]
	if v == nil || v.invoke == nil || v.invoke.RetSeq == 0 || v.invoke.Err != "" {
		es := "<blocked>"
		if v != nil && v.invoke != nil && v.invoke.RetSeq != 0 {
			es = v.invoke.Err
		}
		w.Violate("C07", "tunnel-unusable-after-cancel-at-start", "an RPC cancelled at its very start (%s) left the tunnel unusable: the next RPC ended with %s", w.SigExtra, es)
	}
	// the caller's result names the cause (or, when the cancellation came after the RPC had been
	// opened, may be the complete normal outcome)
	var t *OpRec
	if v := buildViews(w.Env)["sc"]; v != nil {
		t = clientTerminal(v)
	}
	if t == nil {
		w.Violate("C07", "no-terminal-result", "an RPC cancelled at its very start (%s) has no terminal result at the caller", w.SigExtra)
	} else {
		w.Stat("startcancel_outcomes_checked", 1)
		wantCode, wantErr := codes.Canceled, context.Canceled.Error()
		if how == "expires-at-once" || how == "already-expired" {
			wantCode, wantErr = codes.DeadlineExceeded, context.DeadlineExceeded.Error()
		}
		// (even a context that was over before the call races with normal completion here: the
		// library notices it on a goroutine of its own, and in a rare schedule - seen once in 62 488
		// thorough cases - the whole round trip completes first; that outcome is legal if complete)
		normal := (t.K == "invoke" && t.Err == "") || (t.K == "recv" && t.EOF)
		if normal {
			w.Stat("startcancel_normal_outcomes", 1)
			if v := buildViews(w.Env)["sc"]; v != nil {
				okSends, got := 0, 0
				for _, sd := range v.hdlSends {
					if sd.RetSeq != 0 && sd.Err == "" {
						okSends++
					}
				}
				for _, r := range v.cliRecvs {
					if r.RetSeq != 0 && r.Err == "" {
						got++
					}
				}
				if v.invoke != nil && v.invoke.Err == "" {
					got++
				}
				if got != okSends {
					w.Violate("C07", "mixed-outcome:missing-data", "an RPC cancelled at its very start (%s): the caller was told the RPC ended normally after %d message(s); the handler had sent %d", w.SigExtra, got, okSends)
				}
			}
		}
		if !normal && t.Code != wantCode && t.Err != wantErr {
			w.Violate("C07", "wrong-code-for-cause", "an RPC cancelled at its very start (%s): the caller got code %v (%q), want %v", w.SigExtra, t.Code, t.Err, wantCode)
		}
	}
	select {
	case <-w.TCh.Done():
		w.Violate("C08", "rpc-did-not-begin-with-new-stream", "an RPC cancelled at its very start (%s) ended the tunnel: %v", w.SigExtra, w.TCh.Err())
	default:
	}
	n := 0
	for _, inv := range w.Env.Log.Invocations {
		if inv.RPC == "sc" {
			n++
		}
	}
	if n > 1 {
		w.Violate("C08", "rpc-invoked-twice", "rpc sc resulted in %d handler invocations", n)
	}
	w.CheckTables(w.TCh, 0, 0, true, "after cancel at start")
	w.CheckIdle("after cancel at start")
	w.Finish()
}

// famStaleDrain: a raw client reuses / lowers / negates a stream id after the
// server started draining. The refusal for "shutting down" does not excuse a
// non-increasing id: the tunnel must end with an error; a fresh id is refused
// with Unavailable and the tunnel lives.
func famStaleDrain(w *World, c *Case, rng *rand.Rand) {
	which := c.s("which", "reuse-finished")
	w.SigExtra = which
	w.Wire.JudgeClient = false
	w.Window.JudgeClient = false
	rc, err := w.OpenRawClient(true, false)
	if err != nil {
		w.Violate("C09", "raw-open-failed", "raw client could not open the tunnel: %v", err)
		w.Finish()
		return
	}
	w.Wait()
	w.Env.registerSpec(&RPCSpec{ID: "f", Method: "Unary", Handler: []Op{{K: "recv"}, {K: "send", N: 3}, {K: "ret"}}})
	w.Env.registerSpec(&RPCSpec{ID: "live", Method: "Bidi", Handler: []Op{{K: "recv"}, {K: "recvall"}, {K: "ret"}}})
	w.Env.registerSpec(&RPCSpec{ID: "x", Method: "Unary", Handler: []Op{{K: "recv"}, {K: "send", N: 3}, {K: "ret"}}})
	_ = rc.Send(fNew(3, "verif.Svc/Unary", "f", 1, 65536))
	for _, f := range msgFramesC2S(3, wrapBytes(GenPayload("f", dirReq, 0, 5)), 16384) {
		_ = rc.Send(f)
	}
	_ = rc.Send(fHalf(3))
	_ = rc.Send(fNew(5, "verif.Svc/Bidi", "live", 1, 65536))
	for _, f := range msgFramesC2S(5, wrapBytes(GenPayload("live", dirReq, 0, 5)), 16384) {
		_ = rc.Send(f)
	}
	w.Wait()
	// start draining
	if w.Cfg.Dir == "forward" {
		w.Handler.InitiateShutdown()
	} else {
		go w.RevSrvs[0].GracefulStop()
		w.Wait()
	}
	id := map[string]int64{"reuse-finished": 3, "reuse-live": 5, "lower": 4, "negative": -2, "equal-last": 5, "fresh": 9}[which]
	_ = rc.Send(fNew(id, "verif.Svc/Unary", "x", 1, 65536))
	w.Advance(time.Second)
	_, recvDone, _ := rc.Snapshot()
	serveErr, serveReturned := w.carrierServerResult()
	w.Stat("staledrain_runs", 1)
	if which == "fresh" {
		views, _, _ := rc.Snapshot()
		if recvDone {
			w.Violate("C10", "refusal-killed-tunnel", "a fresh stream id while draining ended the tunnel")
		} else if v := views[9]; v.Closes != 1 || codes.Code(v.Close.GetStatus().GetCode()) != codes.Unavailable {
			w.Violate("C10", "rpc-after-shutdown-not-unavailable", "new_stream with a fresh id while draining: %d close frames", v.Closes)
		}
	} else {
		w.Stat("raw_bad_new_stream_id", 1)
		if !recvDone || !serveReturned {
			w.Violate("C08", "non-increasing-id-accepted", "while draining, new_stream with id %d (%s; ids seen: 3 finished, 5 live) did not end the tunnel", id, which)
		} else if serveErr == "" {
			w.Violate("C08", "non-increasing-id-nil-error", "while draining, new_stream with stale id %d ended the tunnel with a nil error", id)
		}
	}
	for _, inv := range w.Env.Log.Invocations {
		if inv.RPC == "x" {
			w.Violate("C10", "rpc-after-shutdown-invoked-handler", "a stream created while draining (%s) reached a handler", which)
		}
	}
	rc.Hangup()
	w.Advance(time.Second)
	w.Finish()
}
