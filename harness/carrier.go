package h

// MemConn: an in-memory gRPC carrier for the two TunnelService streaming
// methods. It implements grpc.ClientConnInterface and grpc.ServiceRegistrar,
// serialises every frame, emulates the grpc-go stream contract the library
// relies on (see the comments on each method; taken from grpc-go v1.75.1
// stream.go / server.go), and is the observation and injection point for the
// monitors: tap, capacity, latency, gate, faults, header stripping, canaries.

import (
	"context"
	"fmt"
	"io"
	"net"
	"strings"
	"sync"
	"sync/atomic"
	"time"

	"google.golang.org/grpc"
	"google.golang.org/grpc/codes"
	"google.golang.org/grpc/metadata"
	"google.golang.org/grpc/peer"
	"google.golang.org/grpc/status"
	"google.golang.org/protobuf/proto"

	"github.com/jhump/grpctunnel/tunnelpb"
)

// Dir is a direction on the carrier stream.
type Dir int

const (
	// C2S is carrier client -> carrier server.
	C2S Dir = iota
	// S2C is carrier server -> carrier client.
	S2C
)

func (d Dir) String() string {
	if d == C2S {
		return "c2s"
	}
	return "s2c"
}

// ConnConfig configures a MemConn.
type ConnConfig struct {
	// CapFrames bounds the number of frames in flight per direction
	// (0 = unbounded). Senders block while the bound is reached.
	CapFrames int
	// CapBytes bounds the marshalled bytes in flight per direction (0 = unbounded).
	CapBytes int
	// Latency is the (virtual) time after which a frame, end-of-stream, final
	// status or cancellation becomes visible to the other side.
	Latency time.Duration
	// Gated holds every frame in flight until Release is called.
	Gated bool
	// StripNegotiateRequest removes the grpctunnel-negotiate request header
	// before the server sees it (impersonates a revision-zero network client).
	StripNegotiateRequest bool
	// ByRef models a transport that does not serialise a message inside Send (an in-process
	// channel): the frame the receiver gets is encoded from the sender's message object at the
	// moment of delivery. grpc's contract forbids modifying a message after SendMsg, so nothing
	// changes for a conforming sender; bytes recycled after Send become visible as corruption.
	ByRef bool
	// StripNegotiateResponse removes the grpctunnel-negotiate response header
	// before the client sees it (impersonates a revision-zero network server).
	StripNegotiateResponse bool
	// Decorate plays the role of a server interceptor storing values in the
	// context of the tunnel-opening call.
	Decorate func(ctx context.Context, link *Link) context.Context
	// PeerAddr returns the peer address the server sees for the n-th stream.
	PeerAddr func(n int) net.Addr
}

// MemConn is the in-memory carrier.
type MemConn struct {
	Cfg   ConnConfig
	Tap   *Tap
	start time.Time

	gated atomic.Bool
	// interceptKV, if set, is appended to the outgoing metadata of every
	// stream opened on the connection, the way a client stream interceptor
	// (auth token, tracing, tenant id) does: it travels on the wire and is
	// visible in the context of the opened stream, not in the caller's.
	interceptKV atomic.Pointer[[]string]

	mu       sync.Mutex
	services map[string]svcEntry
	links    []*Link
}

// SetClientInterceptor installs (or, with no arguments, removes) the metadata a
// modelled client stream interceptor adds to every stream opened from now on.
func (c *MemConn) SetClientInterceptor(kv ...string) {
	if len(kv) == 0 {
		c.interceptKV.Store(nil)
		return
	}
	c.interceptKV.Store(&kv)
}

// SetGated switches gating of newly emitted frames on or off.
func (c *MemConn) SetGated(on bool) { c.gated.Store(on) }

type svcEntry struct {
	desc *grpc.ServiceDesc
	impl any
}

// NewMemConn creates a carrier. It must be created inside the bubble in which
// it is used.
func NewMemConn(cfg ConnConfig, tap *Tap) *MemConn {
	if tap == nil {
		tap = NewTap()
	}
	c := &MemConn{Cfg: cfg, Tap: tap, start: time.Now(), services: map[string]svcEntry{}}
	c.gated.Store(cfg.Gated)
	return c
}

// RegisterService implements grpc.ServiceRegistrar.
func (c *MemConn) RegisterService(desc *grpc.ServiceDesc, impl any) {
	c.mu.Lock()
	defer c.mu.Unlock()
	c.services[desc.ServiceName] = svcEntry{desc, impl}
}

// Invoke implements grpc.ClientConnInterface; the tunnel service has no unary methods.
func (c *MemConn) Invoke(ctx context.Context, method string, args, reply any, opts ...grpc.CallOption) error {
	return status.Errorf(codes.Unimplemented, "memconn: unary method %s not supported", method)
}

// Links returns all carrier streams opened so far.
func (c *MemConn) Links() []*Link {
	c.mu.Lock()
	defer c.mu.Unlock()
	return append([]*Link(nil), c.links...)
}

// VT is the virtual time elapsed since the carrier was created.
func (c *MemConn) VT() time.Duration { return time.Since(c.start) }

type memAddr string

func (a memAddr) Network() string { return "mem" }
func (a memAddr) String() string  { return string(a) }

// NewStream implements grpc.ClientConnInterface.
func (c *MemConn) NewStream(ctx context.Context, desc *grpc.StreamDesc, method string, opts ...grpc.CallOption) (grpc.ClientStream, error) {
	if err := ctx.Err(); err != nil {
		return nil, status.FromContextError(err).Err()
	}
	if kv := c.interceptKV.Load(); kv != nil {
		ctx = metadata.AppendToOutgoingContext(ctx, *kv...)
	}
	parts := strings.SplitN(strings.TrimPrefix(method, "/"), "/", 2)
	if len(parts) != 2 {
		return nil, status.Errorf(codes.Unimplemented, "malformed method %q", method)
	}
	c.mu.Lock()
	se, ok := c.services[parts[0]]
	id := len(c.links)
	c.mu.Unlock()
	var sd *grpc.StreamDesc
	if ok {
		for i := range se.desc.Streams {
			if se.desc.Streams[i].StreamName == parts[1] {
				sd = &se.desc.Streams[i]
			}
		}
	}

	l := &Link{conn: c, ID: id, Method: method, Reverse: strings.HasSuffix(method, "OpenReverseTunnel")}
	l.cond = sync.NewCond(&l.mu)

	outMD, _ := metadata.FromOutgoingContext(ctx)
	l.OpenMD = outMD.Copy()
	inMD := outMD.Copy()
	if inMD == nil {
		inMD = metadata.MD{}
	}
	if c.Cfg.StripNegotiateRequest {
		delete(inMD, "grpctunnel-negotiate")
	}
	var clientAddr, serverAddr net.Addr = memAddr(fmt.Sprintf("client-%d", id)), memAddr(fmt.Sprintf("server-%d", id))
	if c.Cfg.PeerAddr != nil {
		clientAddr = c.Cfg.PeerAddr(id)
	}
	l.ClientAddr = clientAddr

	// client side context: derived from the caller's, carries the peer, is
	// cancelled when the client stream finishes (grpc-go clientStream.finish).
	cctx := peer.NewContext(ctx, &peer.Peer{Addr: serverAddr})
	l.cliCtx, l.cliCancel = context.WithCancel(cctx)

	// server side context: not derived from the client's.
	sctx := metadata.NewIncomingContext(context.Background(), inMD)
	sctx = peer.NewContext(sctx, &peer.Peer{Addr: clientAddr})
	if c.Cfg.Decorate != nil {
		sctx = c.Cfg.Decorate(sctx, l)
	}
	l.srvCtx, l.srvCancel = context.WithCancel(sctx)

	c.mu.Lock()
	l.ID = len(c.links)
	c.links = append(c.links, l)
	c.mu.Unlock()

	// caller's context ending aborts the stream in both directions.
	l.mu.Lock()
	l.callerCtx = ctx
	l.stopCtxWatch = context.AfterFunc(ctx, func() {
		l.clientAbort(status.FromContextError(ctx.Err()).Err())
	})
	l.mu.Unlock()

	cs := &memClientStream{l: l}
	ss := &memServerStream{l: l}
	if sd == nil {
		l.serverReturn(status.Errorf(codes.Unimplemented, "unknown method %s", method))
		return cs, nil
	}
	go func() {
		err := sd.Handler(se.impl, ss)
		l.serverReturn(err)
	}()
	return cs, nil
}

type item struct {
	data     []byte
	msg      proto.Message
	ref      proto.Message // ByRef: the sender's own message object
	end      bool
	st       *status.Status
	trailer  metadata.MD
	readyAt  time.Time
	released bool
}

// wireBytes is what the receiver decodes: the bytes encoded at Send, or (ByRef) an encoding of the
// sender's message object as it is now.
func (it *item) wireBytes() []byte {
	if it.ref != nil {
		if b, err := proto.Marshal(it.ref); err == nil {
			return b
		}
	}
	return it.data
}

type pipe struct {
	q     []*item
	bytes int
	eof   bool // receiver has consumed the end marker
}

// Link is one carrier stream (one tunnel).
type Link struct {
	conn       *MemConn
	ID         int
	Method     string
	Reverse    bool
	OpenMD     metadata.MD
	ClientAddr net.Addr

	mu   sync.Mutex
	cond *sync.Cond
	p    [2]pipe

	cliCtx       context.Context
	cliCancel    context.CancelFunc
	stopCtxWatch func() bool
	callerCtx    context.Context
	cliDone      bool
	cliErr       error // nil means io.EOF (OK status)
	cliTrailer   metadata.MD
	closeSent    bool

	hdrSet     bool
	hdr        metadata.MD
	hdrReadyAt time.Time
	pendingHdr metadata.MD

	srvCtx      context.Context
	srvCancel   context.CancelFunc
	srvDone     bool
	srvAbortErr error
	srvRetErr   error
	srvTrailer  metadata.MD

	// fault plan
	failSendAt [2]int // fail the n-th (1-based) send in that direction; 0 = never
	sendCount  [2]int

	// canaries (C15): plain counters deliberately unsynchronised w.r.t. the
	// library: the library promises to serialise Send/CloseSend and Recv calls.
	cliSendPlain, cliRecvPlain, srvSendPlain, srvRecvPlain int
	cliSendIn, cliRecvIn, srvSendIn, srvRecvIn             atomic.Int32
}

func (l *Link) now() time.Time { return time.Now() }

func (l *Link) wakeAt(t time.Time) {
	d := time.Until(t)
	if d < 0 {
		d = 0
	}
	time.AfterFunc(d, func() {
		l.mu.Lock()
		l.cond.Broadcast()
		l.mu.Unlock()
	})
}

// finishClientLocked marks the client half finished (grpc-go clientStream.finish).
func (l *Link) finishClientLocked(err error, trailer metadata.MD) {
	if l.cliDone {
		return
	}
	l.cliDone = true
	if err == io.EOF {
		err = nil
	}
	l.cliErr = err
	l.cliTrailer = trailer
	l.cliCancel()
	if l.stopCtxWatch != nil {
		l.stopCtxWatch()
	}
	l.conn.Tap.record(&TapEvent{Link: l, Kind: "client-finished", Err: errString(err)})
	l.cond.Broadcast()
}

// abortServerLocked makes the server half observe cancellation (RST_STREAM /
// transport loss): context cancelled, Recv and Send fail.
func (l *Link) abortServerLocked(err error) {
	if l.srvAbortErr != nil || l.srvDone {
		return
	}
	l.srvAbortErr = err
	l.srvCancel()
	l.conn.Tap.record(&TapEvent{Link: l, Kind: "server-aborted", Err: errString(err)})
	l.cond.Broadcast()
}

func (l *Link) abortServerAfterLatency(err error) {
	lat := l.conn.Cfg.Latency
	if lat <= 0 {
		l.abortServerLocked(err)
		return
	}
	time.AfterFunc(lat, func() {
		l.mu.Lock()
		defer l.mu.Unlock()
		l.abortServerLocked(err)
	})
}

// clientAbort: the client gave up (context ended, local error). The client
// half finishes now; the server learns after the latency.
func (l *Link) clientAbort(err error) {
	l.mu.Lock()
	defer l.mu.Unlock()
	if l.cliDone {
		return
	}
	l.finishClientLocked(err, nil)
	l.abortServerAfterLatency(status.Error(codes.Canceled, "context canceled"))
}

// observeCallerCtx makes a client-side operation that starts after the caller's
// context has ended see the stream as aborted, whether or not the asynchronous
// context watcher has run yet (grpc-go: once the context is done the stream is
// finished with the context error; a half-close issued afterwards does not
// turn that into a clean end).
func (l *Link) observeCallerCtx() {
	if l.callerCtx == nil {
		return
	}
	if err := l.callerCtx.Err(); err != nil {
		l.clientAbort(status.FromContextError(err).Err())
	}
}

// Break simulates loss of the transport: both halves fail at once.
func (l *Link) Break() {
	l.mu.Lock()
	defer l.mu.Unlock()
	l.conn.Tap.record(&TapEvent{Link: l, Kind: "break"})
	l.finishClientLocked(status.Error(codes.Unavailable, "transport is closing"), nil)
	l.abortServerLocked(status.Error(codes.Canceled, "context canceled"))
}

// ResetByServer simulates the server side resetting the stream (e.g. the
// network server process enforcing a limit): client sees the given status.
func (l *Link) ResetByServer(st *status.Status) {
	l.mu.Lock()
	defer l.mu.Unlock()
	l.conn.Tap.record(&TapEvent{Link: l, Kind: "reset-by-server"})
	l.finishClientLocked(st.Err(), nil)
	l.abortServerLocked(status.Error(codes.Canceled, "context canceled"))
}

// FailSendAt makes the n-th (1-based, counted from now) SendMsg in the given
// direction break the transport instead of sending.
func (l *Link) FailSendAt(d Dir, n int) {
	l.mu.Lock()
	defer l.mu.Unlock()
	l.failSendAt[d] = l.sendCount[d] + n
}

func (l *Link) serverReturn(err error) {
	st, ok := status.FromError(err)
	if !ok {
		st = status.FromContextError(err)
	}
	l.mu.Lock()
	defer l.mu.Unlock()
	if l.srvDone {
		return
	}
	l.srvDone = true
	l.srvRetErr = st.Err()
	l.srvCancel()
	l.conn.Tap.record(&TapEvent{Link: l, Kind: "server-returned", Err: errString(st.Err())})
	if l.srvAbortErr != nil {
		l.cond.Broadcast()
		return
	}
	l.flushHeaderLocked()
	it := &item{end: true, st: st, trailer: l.srvTrailer, readyAt: l.now().Add(l.conn.Cfg.Latency), released: !l.conn.gated.Load()}
	l.p[S2C].q = append(l.p[S2C].q, it)
	l.cond.Broadcast()
}

func (l *Link) flushHeaderLocked() {
	if l.hdrSet {
		return
	}
	l.hdrSet = true
	hdr := l.pendingHdr
	if l.conn.Cfg.StripNegotiateResponse && hdr != nil {
		hdr = hdr.Copy()
		delete(hdr, "grpctunnel-negotiate")
	}
	l.hdr = hdr
	l.hdrReadyAt = l.now().Add(l.conn.Cfg.Latency)
	l.cond.Broadcast()
}

// Pending reports how many items are in flight (not yet received) in a direction,
// and how many of them are released.
func (l *Link) Pending(d Dir) (total, released int) {
	l.mu.Lock()
	defer l.mu.Unlock()
	for _, it := range l.p[d].q {
		total++
		if it.released {
			released++
		}
	}
	return
}

// Release lets up to n held items through in the given direction (gated mode).
func (l *Link) Release(d Dir, n int) int {
	l.mu.Lock()
	defer l.mu.Unlock()
	done := 0
	for _, it := range l.p[d].q {
		if done >= n {
			break
		}
		if !it.released {
			it.released = true
			it.readyAt = l.now().Add(l.conn.Cfg.Latency)
			done++
		}
	}
	if done > 0 {
		l.cond.Broadcast()
	}
	return done
}

// SetGated switches gating of newly emitted frames on or off; switching off releases everything.
func (l *Link) ReleaseAll() {
	l.mu.Lock()
	defer l.mu.Unlock()
	for d := 0; d < 2; d++ {
		for _, it := range l.p[d].q {
			it.released = true
		}
	}
	l.cond.Broadcast()
}

// ClientDone reports whether the client half has finished, and with what.
func (l *Link) ClientDone() (bool, error) {
	l.mu.Lock()
	defer l.mu.Unlock()
	return l.cliDone, l.cliErr
}

// ServerDone reports whether the carrier handler has returned.
func (l *Link) ServerDone() bool {
	l.mu.Lock()
	defer l.mu.Unlock()
	return l.srvDone
}

// ServerReturn reports whether the carrier handler has returned and its status error.
func (l *Link) ServerReturn() (error, bool) {
	l.mu.Lock()
	defer l.mu.Unlock()
	return l.srvRetErr, l.srvDone
}

// send enqueues one frame. side-specific termination checks are supplied by stop.
func (l *Link) send(d Dir, m any, stop func() error) error {
	pm, ok := m.(proto.Message)
	if !ok {
		return status.Errorf(codes.Internal, "memconn: not a proto message: %T", m)
	}
	data, merr := proto.Marshal(pm)
	l.mu.Lock()
	defer l.mu.Unlock()
	if err := stop(); err != nil {
		return err
	}
	if merr != nil {
		return &marshalError{merr}
	}
	l.sendCount[d]++
	if l.failSendAt[d] != 0 && l.sendCount[d] == l.failSendAt[d] {
		l.conn.Tap.record(&TapEvent{Link: l, Kind: "break"})
		l.finishClientLocked(status.Error(codes.Unavailable, "transport is closing"), nil)
		l.abortServerLocked(status.Error(codes.Canceled, "context canceled"))
		return stop()
	}
	cfg := &l.conn.Cfg
	for (cfg.CapFrames > 0 && len(l.p[d].q) >= cfg.CapFrames) || (cfg.CapBytes > 0 && l.p[d].bytes > 0 && l.p[d].bytes+len(data) > cfg.CapBytes) {
		if d == C2S && l.peerEndDeliveredLocked() {
			// grpc-go: the transport (not the application's RecvMsg) takes in the server's end of
			// stream; a SendMsg waiting for transport quota is then released with io.EOF even
			// if the application is not reading
			return io.EOF
		}
		l.cond.Wait()
		if err := stop(); err != nil {
			return err
		}
	}
	it := &item{data: data, msg: proto.Clone(pm), readyAt: l.now().Add(cfg.Latency), released: !l.conn.gated.Load()}
	if cfg.ByRef {
		it.ref = pm
	}
	l.p[d].q = append(l.p[d].q, it)
	l.p[d].bytes += len(data)
	l.conn.Tap.record(&TapEvent{Link: l, Kind: "emit", Dir: d, Msg: it.msg, Bytes: len(data)})
	l.cond.Broadcast()
	return nil
}

// peerEndDeliveredLocked reports whether the carrier handler has returned and everything it wrote,
// including the end of the stream, has reached the client's side of the transport.
func (l *Link) peerEndDeliveredLocked() bool {
	if !l.srvDone {
		return false
	}
	var latest time.Time
	for _, it := range l.p[S2C].q {
		if !it.released {
			return false
		}
		if it.readyAt.After(latest) {
			latest = it.readyAt
		}
	}
	if latest.After(l.now()) {
		l.wakeAt(latest)
		return false
	}
	return true
}

type marshalError struct{ err error }

func (e *marshalError) Error() string { return "grpc: error while marshaling: " + e.err.Error() }

// recv dequeues one item; returns (nil item, err) when stop says so.
func (l *Link) recvLocked(d Dir, stop func() error) (*item, error) {
	for {
		if err := stop(); err != nil {
			return nil, err
		}
		if len(l.p[d].q) > 0 {
			head := l.p[d].q[0]
			if head.released {
				if wait := head.readyAt.Sub(l.now()); wait > 0 {
					l.wakeAt(head.readyAt)
				} else {
					l.p[d].q = l.p[d].q[1:]
					l.p[d].bytes -= len(head.data)
					l.cond.Broadcast()
					return head, nil
				}
			}
		}
		l.cond.Wait()
	}
}

// ---- client half ----

type memClientStream struct{ l *Link }

func (s *memClientStream) Context() context.Context { return s.l.cliCtx }

func (s *memClientStream) Header() (metadata.MD, error) {
	l := s.l
	l.mu.Lock()
	defer l.mu.Unlock()
	for {
		if l.hdrSet {
			if wait := l.hdrReadyAt.Sub(l.now()); wait > 0 {
				l.wakeAt(l.hdrReadyAt)
			} else {
				return l.hdr.Copy(), nil
			}
		} else if l.cliDone {
			// stream ended without headers: (nil, status error or nil)
			return nil, l.cliErr
		}
		l.cond.Wait()
	}
}

func (s *memClientStream) Trailer() metadata.MD {
	s.l.mu.Lock()
	defer s.l.mu.Unlock()
	return s.l.cliTrailer.Copy()
}

func (s *memClientStream) canarySend() func() {
	l := s.l
	if l.cliSendIn.Add(1) > 1 {
		l.conn.Tap.canary("concurrent SendMsg/CloseSend on carrier client stream")
	}
	l.cliSendPlain++
	return func() { l.cliSendIn.Add(-1) }
}

func (s *memClientStream) CloseSend() error {
	defer s.canarySend()()
	l := s.l
	l.observeCallerCtx()
	l.mu.Lock()
	defer l.mu.Unlock()
	if l.closeSent || l.cliDone {
		return nil
	}
	l.closeSent = true
	l.conn.Tap.record(&TapEvent{Link: l, Kind: "close-send"})
	it := &item{end: true, readyAt: l.now().Add(l.conn.Cfg.Latency), released: !l.conn.gated.Load()}
	l.p[C2S].q = append(l.p[C2S].q, it)
	l.cond.Broadcast()
	return nil
}

func (s *memClientStream) SendMsg(m any) error {
	defer s.canarySend()()
	l := s.l
	l.observeCallerCtx()
	err := l.send(C2S, m, func() error {
		if l.cliDone {
			return io.EOF
		}
		if l.closeSent {
			// grpc-go: "SendMsg called after CloseSend" -> Internal, and the
			// deferred finish(err) ends the stream.
			return status.Error(codes.Internal, "SendMsg called after CloseSend")
		}
		return nil
	})
	if err != nil && err != io.EOF {
		if me, ok := err.(*marshalError); ok {
			err = status.Error(codes.Internal, me.Error())
		}
		// errors generated by this SendMsg call finish the stream
		l.clientAbort(err)
	}
	return err
}

func (s *memClientStream) RecvMsg(m any) error {
	l := s.l
	if l.cliRecvIn.Add(1) > 1 {
		l.conn.Tap.canary("concurrent RecvMsg on carrier client stream")
	}
	l.cliRecvPlain++
	defer l.cliRecvIn.Add(-1)

	l.observeCallerCtx()
	l.mu.Lock()
	defer l.mu.Unlock()
	it, err := l.recvLocked(S2C, func() error {
		if l.cliDone {
			if l.cliErr == nil {
				return io.EOF
			}
			return l.cliErr
		}
		return nil
	})
	if err != nil {
		return err
	}
	if it.end {
		err := it.st.Err()
		if err == nil {
			err = io.EOF
		}
		l.finishClientLocked(err, it.trailer)
		return err
	}
	pm, ok := m.(proto.Message)
	if !ok {
		return status.Errorf(codes.Internal, "memconn: not a proto message: %T", m)
	}
	if uerr := proto.Unmarshal(it.wireBytes(), pm); uerr != nil {
		// grpc-go: failed to unmarshal the received message -> Internal, stream finished
		e := status.Errorf(codes.Internal, "grpc: failed to unmarshal the received message: %v", uerr)
		l.finishClientLocked(e, nil)
		l.abortServerAfterLatency(status.Error(codes.Canceled, "context canceled"))
		return e
	}
	l.conn.Tap.record(&TapEvent{Link: l, Kind: "deliver", Dir: S2C, Msg: it.msg, Bytes: len(it.data)})
	return nil
}

// ---- server half ----

type memServerStream struct{ l *Link }

func (s *memServerStream) Context() context.Context { return s.l.srvCtx }

func (s *memServerStream) SetHeader(md metadata.MD) error {
	l := s.l
	l.mu.Lock()
	defer l.mu.Unlock()
	if l.hdrSet {
		return status.Error(codes.Internal, "transport: SetHeader called after headers were sent")
	}
	l.pendingHdr = metadata.Join(l.pendingHdr, md)
	return nil
}

func (s *memServerStream) SendHeader(md metadata.MD) error {
	l := s.l
	l.mu.Lock()
	defer l.mu.Unlock()
	if l.hdrSet {
		return status.Error(codes.Internal, "transport: SendHeader called multiple times")
	}
	if l.srvAbortErr != nil {
		return l.srvAbortErr
	}
	l.pendingHdr = metadata.Join(l.pendingHdr, md)
	l.flushHeaderLocked()
	return nil
}

func (s *memServerStream) SetTrailer(md metadata.MD) {
	l := s.l
	l.mu.Lock()
	defer l.mu.Unlock()
	l.srvTrailer = metadata.Join(l.srvTrailer, md)
}

func (s *memServerStream) SendMsg(m any) error {
	l := s.l
	if l.srvSendIn.Add(1) > 1 {
		l.conn.Tap.canary("concurrent SendMsg on carrier server stream")
	}
	l.srvSendPlain++
	defer l.srvSendIn.Add(-1)

	l.mu.Lock()
	l.flushHeaderLocked()
	l.mu.Unlock()
	err := l.send(S2C, m, func() error {
		if l.srvAbortErr != nil {
			return l.srvAbortErr
		}
		if l.srvDone {
			return status.Error(codes.Internal, "transport: the stream is done")
		}
		return nil
	})
	if me, ok := err.(*marshalError); ok {
		// grpc-go serverStream.SendMsg: a non-EOF error writes the status and
		// ends the stream.
		e := status.Error(codes.Internal, me.Error())
		l.mu.Lock()
		if !l.srvDone && l.srvAbortErr == nil {
			it := &item{end: true, st: status.Convert(e), readyAt: l.now().Add(l.conn.Cfg.Latency), released: !l.conn.gated.Load()}
			l.p[S2C].q = append(l.p[S2C].q, it)
			l.srvAbortErr = e
			l.srvCancel()
			l.cond.Broadcast()
		}
		l.mu.Unlock()
		return e
	}
	return err
}

func (s *memServerStream) RecvMsg(m any) error {
	l := s.l
	if l.srvRecvIn.Add(1) > 1 {
		l.conn.Tap.canary("concurrent RecvMsg on carrier server stream")
	}
	l.srvRecvPlain++
	defer l.srvRecvIn.Add(-1)

	l.mu.Lock()
	defer l.mu.Unlock()
	it, err := l.recvLocked(C2S, func() error {
		if l.srvAbortErr != nil {
			return l.srvAbortErr
		}
		if l.srvDone {
			return status.Error(codes.Canceled, "context canceled")
		}
		if l.p[C2S].eof {
			return io.EOF
		}
		return nil
	})
	if err != nil {
		return err
	}
	if it.end {
		l.p[C2S].eof = true
		l.conn.Tap.record(&TapEvent{Link: l, Kind: "deliver-half-close", Dir: C2S})
		return io.EOF
	}
	pm, ok := m.(proto.Message)
	if !ok {
		return status.Errorf(codes.Internal, "memconn: not a proto message: %T", m)
	}
	if uerr := proto.Unmarshal(it.wireBytes(), pm); uerr != nil {
		// grpc-go server: unmarshal failure -> Internal status; handler gets the error.
		e := status.Errorf(codes.Internal, "grpc: failed to unmarshal the received message: %v", uerr)
		return e
	}
	l.conn.Tap.record(&TapEvent{Link: l, Kind: "deliver", Dir: C2S, Msg: it.msg, Bytes: len(it.data)})
	return nil
}

// ---- tap ----

// TapEvent is one observation on a carrier stream.
type TapEvent struct {
	Seq   int64
	Link  *Link
	Kind  string // emit, deliver, close-send, deliver-half-close, client-finished, server-aborted, server-returned, break
	Dir   Dir
	VT    time.Duration
	Msg   proto.Message
	Bytes int
	Err   string
}

// FromTunnelClient reports whether the frame travels from the tunnel client
// (the RPC-issuing end) to the tunnel server.
func (e *TapEvent) FromTunnelClient() bool {
	return (e.Dir == C2S) != e.Link.Reverse
}

// C2SFrame returns the frame as a ClientToServer message, if it is one.
func (e *TapEvent) C2SFrame() *tunnelpb.ClientToServer {
	m, _ := e.Msg.(*tunnelpb.ClientToServer)
	return m
}

// S2CFrame returns the frame as a ServerToClient message, if it is one.
func (e *TapEvent) S2CFrame() *tunnelpb.ServerToClient {
	m, _ := e.Msg.(*tunnelpb.ServerToClient)
	return m
}

// TapSink consumes tap events online, in sequence order, under the tap lock.
type TapSink interface {
	OnTap(e *TapEvent)
}

// Tap records events of all links of a carrier and feeds online monitors.
type Tap struct {
	mu       sync.Mutex
	seq      int64
	SeqSrc   *atomic.Int64 // shared global sequence (optional)
	start    time.Time
	Keep     bool
	Events   []*TapEvent
	sinks    []TapSink
	Canaries []string
	Counts   map[string]int
}

// NewTap creates a tap.
func NewTap() *Tap { return &Tap{start: time.Now(), Counts: map[string]int{}} }

// AddSink attaches an online monitor.
func (t *Tap) AddSink(s TapSink) {
	t.mu.Lock()
	defer t.mu.Unlock()
	t.sinks = append(t.sinks, s)
}

func (t *Tap) record(e *TapEvent) {
	t.mu.Lock()
	defer t.mu.Unlock()
	t.seq++
	e.Seq = t.seq
	if t.SeqSrc != nil {
		e.Seq = t.SeqSrc.Add(1)
	}
	e.VT = time.Since(t.start)
	t.Counts[e.Kind]++
	if t.Keep {
		t.Events = append(t.Events, e)
	}
	for _, s := range t.sinks {
		s.OnTap(e)
	}
}

func (t *Tap) canary(msg string) {
	t.mu.Lock()
	defer t.mu.Unlock()
	t.Canaries = append(t.Canaries, msg)
}

// Snapshot returns counts and canaries.
func (t *Tap) Snapshot() (counts map[string]int, canaries []string, seq int64) {
	t.mu.Lock()
	defer t.mu.Unlock()
	counts = map[string]int{}
	for k, v := range t.Counts {
		counts[k] = v
	}
	return counts, append([]string(nil), t.Canaries...), t.seq
}

func errString(err error) string {
	if err == nil {
		return ""
	}
	return err.Error()
}
