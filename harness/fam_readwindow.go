package h

// readwindow: a reader (handler or client) is held inside RecvMsg, after the
// library's entry checks and just before it takes the next frame from its
// receive queue, while a termination cause is processed. Whatever the reader
// is told afterwards must still satisfy the delivery oracle: a normal
// end-of-stream only if every submitted message was received (C01), never a
// fabricated message, and an RPC that was cancelled must not report success
// with a truncated stream (C07 through CheckOutcome).

import (
	"fmt"
	"math/rand"
	"time"
)

func init() {
	families["readwindow"] = famReadWindow
	add := func(id string, quickReps, thoroughReps int) {
		prev := listers[id]
		listers[id] = func(tier string, seed int64) []Case {
			out := prev(tier, seed)
			rng := rand.New(rand.NewSource(seed*911 + 77))
			reps := quickReps
			if tier == "thorough" {
				reps = thoroughReps
			}
			for r := 0; r < reps; r++ {
				for _, dir := range []string{"forward", "reverse"} {
					for _, fc := range []string{"on", "bothnofc"} {
						for _, cause := range []string{"rpc-cancel", "rpc-deadline", "handler-deadline", "chan-close", "break"} {
							for _, side := range []string{"server", "client"} {
								cfg := WorldCfg{Dir: dir}
								if fc == "bothnofc" {
									cfg.ClientNoFC, cfg.ServerNoFC = true, true
								}
								out = append(out, Case{Family: "readwindow", Seed: rng.Int63(), Cfg: cfg,
									S: map[string]string{"cause": cause, "side": side},
									P: map[string]int{"msgs": 1 + rng.Intn(4), "hit": rng.Intn(12), "halfclose": rng.Intn(2)}})
							}
						}
					}
				}
			}
			return out
		}
	}
	add("C01", 3, 120)
	add("C07", 2, 80)
}

func famReadWindow(w *World, c *Case, rng *rand.Rand) {
	if err := w.Open(nil); err != nil {
		w.Violate("C11", "open-failed", "opening the tunnel failed in configuration %s: %v", w.Cfg, err)
		w.Finish()
		return
	}
	cause, side := c.s("cause", "rpc-cancel"), c.s("side", "server")
	n, hit := c.p("msgs", 3), c.p("hit", 2)
	point := side + ".read.beforeDequeue"
	parks := make([]time.Duration, hit+1)
	parks[hit] = 40 * time.Millisecond
	w.installYield(&YieldPlan{Parks: map[string][]time.Duration{point: parks}})

	var spec *RPCSpec
	if side == "server" {
		// the client submits everything at once, the handler reads it all
		cl := []Op{{K: "open"}}
		for i := 0; i < n; i++ {
			cl = append(cl, Op{K: "send", N: genSize(rng, 9000)})
		}
		if c.p("halfclose", 1) == 1 {
			cl = append(cl, Op{K: "close"})
		}
		cl = append(cl, Op{K: "recvall"})
		spec = &RPCSpec{ID: "rw", Method: "Bidi", Client: cl, Handler: []Op{{K: "recvall"}, {K: "send", N: 7}, {K: "ret"}}}
	} else {
		// the handler submits everything at once and returns, the client reads it all
		hd := []Op{{K: "recv"}}
		for i := 0; i < n; i++ {
			hd = append(hd, Op{K: "send", N: genSize(rng, 9000)})
		}
		if c.p("halfclose", 1) == 1 {
			hd = append(hd, Op{K: "ret"})
		} else {
			hd = append(hd, Op{K: "ctxwait"}, Op{K: "ret"})
		}
		spec = &RPCSpec{ID: "rw", Method: "ServerStream", Client: []Op{{K: "open"}, {K: "send", N: 3}, {K: "close"}, {K: "recvall"}}, Handler: hd}
	}
	switch cause {
	case "rpc-deadline":
		spec.Timeout = 10 * time.Millisecond
	case "handler-deadline":
		spec.GrpcTimeout = "10m"
	}
	w.Env.StartRPC(w.RootCtx, w.Ch, spec)
	w.Advance(10 * time.Millisecond)
	switch cause {
	case "rpc-cancel":
		spec.cancel()
	case "chan-close":
		w.TCh.Close()
	case "break":
		w.Conn.Links()[0].Break()
	}
	w.Advance(time.Second)
	w.yield.mu.Lock()
	hits := w.yield.Hits[point]
	w.yield.mu.Unlock()
	if hits > hit {
		w.Stat("readwindow_parked", 1)
	}
	w.SigExtra = fmt.Sprintf("%s/%s/n%d/hit%d/%v", side, cause, n, hit, hits > hit)
	for _, r := range w.Env.Log.OpenOps() {
		w.Violate("C04", "op-hangs:"+r.Side+":"+r.K, "readwindow (%s, %s): %s %s[%d] never returned", side, cause, r.Side, r.K, r.Idx)
	}
	w.CheckDelivery()
	// two legal outcomes (the outcome oracle is for undisturbed RPCs only): the cancellation, or the
	// complete normal result
	if v := buildViews(w.Env)["rw"]; v != nil {
		if t := clientTerminal(v); t != nil && t.K == "recv" && t.EOF {
			okSends, got := 0, 0
			for _, sd := range v.hdlSends {
				if sd.RetSeq != 0 && sd.Err == "" {
					okSends++
				}
			}
			for _, r := range v.cliRecvs {
				if r.RetSeq != 0 && r.Err == "" {
					got++
				}
			}
			if v.ret == nil {
				w.Violate("C07", "success-without-handler-return", "readwindow (%s, %s): the caller was told the RPC ended normally but its handler had not returned", side, cause)
			} else if got != okSends {
				w.Violate("C07", "mixed-outcome:missing-data", "readwindow (%s, %s): the caller was told OK after %d message(s), the handler had sent %d", side, cause, got, okSends)
			}
		}
	}
	w.Stat("readwindow_runs", 1)
	w.Finish()
}
