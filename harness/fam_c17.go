package h

// C17: identity of tunnel, peer and opening metadata in handlers and callers,
// with readers that mutate what the accessors return.

import (
	"context"
	"fmt"
	"math/rand"
	"sort"
	"time"

	"google.golang.org/grpc/metadata"
	"google.golang.org/grpc/peer"

	"github.com/jhump/grpctunnel"
	"github.com/jhump/grpctunnel/tunnelpb"
)

func init() {
	families["identity"] = famIdentity
	listers["C17"] = func(tier string, seed int64) []Case {
		var out []Case
		rng := rand.New(rand.NewSource(seed*503 + 17))
		n := 200
		if tier == "thorough" {
			n = 30000
		}
		for i := 0; i < n; i++ {
			cfg := WorldCfg{Dir: allDirs[rng.Intn(len(allDirs))]}
			multi := 0
			if rng.Intn(3) == 0 {
				cfg.Dir = "reverse"
				multi = 1
			}
			switch rng.Intn(4) {
			case 0:
				cfg.ClientNoFC = true
			case 1:
				cfg.ServerNoFC = true
			}
			out = append(out, Case{Family: "identity", Seed: rng.Int63(), Cfg: cfg, P: map[string]int{"multi": multi}})
		}
		return out
	}
}

func withNegotiate(md metadata.MD) metadata.MD {
	out := md.Copy()
	if out == nil {
		out = metadata.MD{}
	}
	out.Append("grpctunnel-negotiate", "on")
	return out
}

func famIdentity(w *World, c *Case, rng *rand.Rand) {
	multi := c.p("multi", 0) == 1
	type tinfo struct {
		openMD metadata.MD
		ch     grpctunnel.TunnelChannel
		peer   string
		ctxval string
	}
	tunnels := map[string]*tinfo{} // by serving ident
	if !multi {
		openMD := genMD(rng, "open")
		if w.Cfg.Dir == "forward" && rng.Intn(2) == 0 {
			// a client stream interceptor on the carrying connection adds
			// headers when the tunnel stream is opened: they are part of what
			// opened the tunnel, for handlers and for callers alike
			w.Conn.SetClientInterceptor("x-intercept-token", "tok-"+fmt.Sprint(rng.Intn(1000)), "x-intercept-bin", string([]byte{1, 2, 3}))
			w.Stat("identity_with_client_interceptor", 1)
		}
		if err := w.Open(openMD); err != nil {
			w.Violate("C11", "open-failed", "open: %v", err)
			w.Finish()
			return
		}
		if kv := w.Conn.interceptKV.Load(); kv != nil {
			openMD = openMD.Copy()
			if openMD == nil {
				openMD = metadata.MD{}
			}
			for i := 0; i+1 < len(*kv); i += 2 {
				openMD.Append((*kv)[i], (*kv)[i+1])
			}
		}
		ti := &tinfo{openMD: openMD, ch: w.TCh}
		switch w.Cfg.Dir {
		case "forward":
			ti.peer, ti.ctxval = "client-0", "ctxval-link-0"
			tunnels["fwd"] = ti
		case "nested-ff":
			ti.peer, ti.ctxval = "client-0", "ctxval-link-0"
			tunnels["fwd"] = ti
		case "reverse":
			ti.peer, ti.ctxval = "server-0", "opener-ctx"
			tunnels["rev-0"] = ti
		case "nested-rf":
			ti.peer, ti.ctxval = "", "opener-ctx"
			tunnels["nested-rev"] = ti
		case "nested-fr":
			// handlers of the inner forward tunnel run at the network client, under the outer reverse tunnel's serving context
			ti.peer, ti.ctxval = "server-0", "opener-ctx"
			tunnels["inner-fwd"] = ti
		case "nested-rr":
			ti.peer, ti.ctxval = "", "opener-ctx"
			tunnels["nested-rev"] = ti
		}
	} else {
		w.Handler = w.NewHandler(w.Cfg.ClientNoFC, AffinityFromMD)
		tunnelpb.RegisterTunnelServiceServer(w.Conn, w.Handler.Service())
		w.Stub = tunnelpb.NewTunnelServiceClient(w.Conn)
		byIdent := map[string]*tinfo{}
		for i := 0; i < 3; i++ {
			ident := fmt.Sprintf("m%d", i)
			md := genMD(rng, fmt.Sprintf("open%d", i))
			if md == nil {
				md = metadata.MD{}
			}
			md.Set("x-key", "same")
			md.Set("x-ident", ident)
			rs := grpctunnel.NewReverseTunnelServer(w.Stub, w.serverOpts()...)
			desc, impl := NewSvc(w.Env, ident)
			rs.RegisterService(desc, impl)
			ctx := context.WithValue(metadata.NewOutgoingContext(w.RootCtx, md.Copy()), ctxValKey{}, "serve-ctx-"+ident)
			w.startServe(rs, ctx, ident)
			w.Advance(time.Millisecond)
			byIdent[ident] = &tinfo{openMD: md, peer: fmt.Sprintf("server-%d", i), ctxval: "serve-ctx-" + ident}
		}
		for _, ch := range w.Handler.AllReverseTunnels() {
			md, _ := metadata.FromIncomingContext(ch.Context())
			if v := md.Get("x-ident"); len(v) > 0 && byIdent[v[0]] != nil {
				byIdent[v[0]].ch = ch
			}
		}
		for id, ti := range byIdent {
			if ti.ch == nil {
				w.Violate("C12", "reverse-tunnels-not-registered", "tunnel %s not registered", id)
				w.Finish()
				return
			}
			tunnels[id] = ti
		}
		w.Ch = w.Handler.KeyAsChannel("same")
		w.TCh = nil
	}
	// concurrent RPCs, some of which mutate what the accessors return
	n := 6 + rng.Intn(10)
	var specs []*RPCSpec
	for i := 0; i < n; i++ {
		mut := rng.Intn(2)
		reqMD := genMD(rng, "req")
		var s *RPCSpec
		if rng.Intn(2) == 0 {
			s = &RPCSpec{ID: fmt.Sprintf("i%d", i), Method: "Unary", ReqMD: reqMD, UseChanOpt: true, UsePeerOpt: true,
				Client:  []Op{{K: "invoke", N: 10}},
				Handler: []Op{{K: "ident", N: mut}, {K: "recv"}, {K: "ident", N: mut}, {K: "send", N: 5}, {K: "ret"}}}
		} else {
			s = &RPCSpec{ID: fmt.Sprintf("i%d", i), Method: "Bidi", ReqMD: reqMD, UseChanOpt: true, UsePeerOpt: true,
				Client:  []Op{{K: "open"}, {K: "chanctx", N: mut}, {K: "send", N: 10}, {K: "recv"}, {K: "chanctx", N: mut}, {K: "close"}, {K: "recvall"}},
				Handler: []Op{{K: "ident", N: mut}, {K: "recv"}, {K: "send", N: 5}, {K: "ident"}, {K: "recv"}, {K: "ret"}}}
		}
		if rng.Intn(3) == 0 {
			// a deadline only the serving side learns of (the handler's context is then built
			// on a different path); far enough away never to matter
			s.GrpcTimeout = []string{"1H", "30M", "1000S"}[rng.Intn(3)]
		}
		specs = append(specs, s)
	}
	// a long-lived call whose stream context (already tagged with the tunnel that carries it) and
	// the channels' own contexts serve as parent contexts of later calls, as in code that fans out
	// from inside a tunnelled call: the later calls must report the tunnel that carries THEM
	holder := &RPCSpec{ID: "holder", Method: "Bidi", ReqMD: genMD(rng, "req"), UseChanOpt: true,
		Client:  []Op{{K: "open"}, {K: "chanctx"}, {K: "sync", Name: "hold-end"}, {K: "close"}, {K: "recvall"}},
		Handler: []Op{{K: "ident"}, {K: "recvall"}, {K: "ret"}}}
	w.Env.StartRPC(context.Background(), w.Ch, holder)
	w.Advance(time.Millisecond)
	parents := []context.Context{context.Background()}
	if holder.stream != nil {
		parents = append(parents, holder.stream.Context())
	}
	if w.TCh != nil {
		parents = append(parents, w.TCh.Context())
	}
	var tids []string
	for id := range tunnels {
		tids = append(tids, id)
	}
	sort.Strings(tids)
	for _, id := range tids {
		if ti := tunnels[id]; ti.ch != nil {
			parents = append(parents, ti.ch.Context())
		}
	}
	// start them in concurrent batches
	for i := 0; i < len(specs); {
		b := 1 + rng.Intn(4)
		for j := 0; j < b && i < len(specs); j++ {
			parent := context.Background()
			if rng.Intn(2) == 0 {
				parent = parents[rng.Intn(len(parents))]
				w.Stat("identity_calls_with_derived_context", 1)
			}
			w.Env.StartRPC(parent, w.Ch, specs[i])
			i++
		}
		w.Advance(time.Millisecond)
	}
	specs = append(specs, holder)
	// an RPC with no request metadata at all (bare context, no credentials): its handler must see
	// no request metadata - in particular not the tunnel-opening call's
	before := len(w.Env.Log.Invocations)
	bare := &RPCSpec{ID: "bare", Method: []string{"Unary", "Bidi"}[rng.Intn(2)], NoOutgoingMD: true, Client: []Op{{K: "invoke", N: 3}}}
	if bare.Method == "Bidi" {
		bare.Client = []Op{{K: "open"}, {K: "send", N: 3}, {K: "close"}, {K: "recvall"}}
	}
	w.Env.StartRPC(context.Background(), w.Ch, bare)
	w.Advance(time.Second)
	w.Env.Signal("hold-end")
	w.Advance(time.Second)
	w.Env.Log.mu.Lock()
	invs := append([]Invocation(nil), w.Env.Log.Invocations[before:]...)
	w.Env.Log.mu.Unlock()
	for _, inv := range invs {
		if inv.RPC != "" {
			continue
		}
		w.Stat("identity_bare_rpcs", 1)
		if len(inv.MD) != 0 {
			w.Violate("C17", "handler-request-metadata-wrong", "an RPC sent with no request metadata at all (%s, %s): its handler's metadata.FromIncomingContext returned %s", bare.Method, w.Cfg.Dir, mdString(inv.MD))
			w.Violate("C02", "wrong-request-metadata", "an RPC sent with no request metadata at all: handler saw %s", mdString(inv.MD))
		}
	}
	w.Stat("identity_runs", 1)
	views := buildViews(w.Env)
	for _, s := range specs {
		v := views[s.ID]
		if v == nil {
			continue
		}
		// which tunnel answered
		var ti *tinfo
		ident := ""
		for _, r := range v.all {
			if r.K == "ident" && r.RetSeq != 0 {
				ident = r.Extra["ident"]
			}
		}
		ti = tunnels[ident]
		if ti == nil {
			w.Violate("C17", "unknown-serving-instance", "rpc %s answered by unknown instance %q", s.ID, ident)
			continue
		}
		wantTMD := mdString(withNegotiate(ti.openMD))
		for _, r := range v.all {
			if r.RetSeq == 0 {
				w.Violate("C05", "op-stuck-in-clean-run", "rpc %s op %s still blocked", s.ID, r.K)
				continue
			}
			switch {
			case r.Side == "handler" && r.K == "ident":
				w.Stat("identity_handler_reads", 1)
				if r.Extra["tunnel_md_ok"] != "true" || r.Extra["tunnel_md"] != wantTMD {
					w.Violate("C17", "handler-tunnel-metadata-wrong", "rpc %s (tunnel %s, %s): TunnelMetadataFromIncomingContext = %s (ok=%s), the tunnel was opened with %s", s.ID, ident, w.Cfg.Dir, r.Extra["tunnel_md"], r.Extra["tunnel_md_ok"], wantTMD)
				}
				if ti.peer != "" && r.Extra["peer"] != ti.peer {
					w.Violate("C17", "handler-peer-wrong", "rpc %s (tunnel %s): peer in handler context = %q, opening call's peer = %q", s.ID, ident, r.Extra["peer"], ti.peer)
				}
				if r.Extra["ctxval"] != ti.ctxval {
					w.Violate("C17", "handler-context-value-wrong", "rpc %s (tunnel %s, %s): interceptor-set context value = %q, opening call's = %q", s.ID, ident, w.Cfg.Dir, r.Extra["ctxval"], ti.ctxval)
				}
				// the RPC's own request metadata
				want := metadata.MD{}
				for k, vals := range s.ReqMD {
					want[k] = vals
				}
				want.Set("x-rpc", s.ID)
				if s.GrpcTimeout != "" {
					want.Set("grpc-timeout", s.GrpcTimeout)
				}
				if d := mdDiff(want, r.MD); d != "" {
					w.Violate("C17", "handler-request-metadata-wrong", "rpc %s: request metadata in handler = %s, want %s (%s)", s.ID, mdString(r.MD), mdString(want), d)
				}
			case r.Side == "client" && r.K == "chanctx":
				w.Stat("identity_caller_reads", 1)
				if r.Extra["chan"] != fmt.Sprintf("%p", ti.ch) {
					w.Violate("C17", "tunnel-channel-from-context-wrong", "rpc %s answered by %s: TunnelChannelFromContext = %s, the carrying channel is %p", s.ID, ident, r.Extra["chan"], ti.ch)
				}
				if r.Extra["tunnel_md_ok"] != "true" || r.Extra["tunnel_md"] != wantTMD {
					w.Violate("C17", "caller-tunnel-metadata-wrong", "rpc %s (tunnel %s, %s): TunnelMetadataFromOutgoingContext = %s, opened with %s", s.ID, ident, w.Cfg.Dir, r.Extra["tunnel_md"], wantTMD)
				}
			case r.Side == "client" && r.K == "opts" && r.Extra["peer_opt"] != "" && r.Extra["chan_opt"] == "":
				fallthrough
			case r.Side == "client" && ((r.K == "invoke" && r.Err == "") || (r.K == "opts" && r.Extra["chan_opt"] != "")):
				// the grpc.Peer call option names the remote end of the tunnel that carried the RPC
				if po := r.Extra["peer_opt"]; po != "" && ti.ch != nil {
					want := "<none>"
					if p, ok := peer.FromContext(ti.ch.Context()); ok && p.Addr != nil {
						want = p.Addr.String()
					}
					w.Stat("identity_peer_option_reads", 1)
					if po != want {
						w.Violate("C17", "peer-option-wrong", "rpc %s answered by %s: the grpc.Peer call option reports %s, the carrying tunnel's peer is %s", s.ID, ident, po, want)
					}
				}
				if r.Extra["chan_opt"] == "" && r.K == "opts" {
					break
				}
				w.Stat("identity_caller_reads", 1)
				if r.Extra["chan_opt"] != fmt.Sprintf("%p", ti.ch) {
					w.Violate("C17", "with-tunnel-channel-wrong", "rpc %s answered by %s: WithTunnelChannel = %s, the carrying channel is %p", s.ID, ident, r.Extra["chan_opt"], ti.ch)
				}
			}
		}
	}
	// the channel's own context
	for id, ti := range tunnels {
		if ti.ch == nil {
			continue
		}
		_ = id
	}
	w.RevSrvsDedup()
	w.Finish()
}

type interfaceCallOption interface{}

// RevSrvsDedup is a no-op hook kept for symmetry (each reverse server is distinct here).
func (w *World) RevSrvsDedup() {}
