package h

// orphansend (free-running, real time): an application makes two calls one after the other on one
// goroutine; the first one's context is already over when the call is made, and the write of its
// new_stream frame is slowed down inside the carrier (5 ms). Whatever the first call returns, once
// it HAS returned nothing of it may still be on its way: the second call's new_stream frame must
// not overtake the first one's (C08: identifiers reach the wire in increasing order, each RPC
// begins with its new-stream frame), the second call completes normally and the tunnel lives.

import (
	"context"
	"fmt"
	"math/rand"
	"time"
)

func init() {
	families["orphansend"] = famOrphanSend
	freeFamilies["orphansend"] = true
}

func orphanSendCases(tier string, seed int64) []Case {
	var out []Case
	rng := rand.New(rand.NewSource(seed*541 + 23))
	reps := 1
	if tier == "thorough" {
		reps = 12
	}
	for r := 0; r < reps; r++ {
		for _, dir := range []string{"forward", "reverse"} {
			for _, fc := range []bool{true, false} {
				for _, shape := range []string{"Unary", "Bidi"} {
					for _, how := range []string{"cancelled", "expired"} {
						out = append(out, Case{Family: "orphansend", Seed: rng.Int63(), Cfg: WorldCfg{Dir: dir, ClientNoFC: !fc, ServerNoFC: !fc}, S: map[string]string{"shape": shape, "how": how}})
					}
				}
			}
		}
	}
	return out
}

func famOrphanSend(w *World, c *Case, rng *rand.Rand) {
	shape, how := c.s("shape", "Unary"), c.s("how", "cancelled")
	w.SigExtra = shape + "/" + how
	if err := w.Open(nil); err != nil {
		w.Violate("C11", "open-failed", "opening the tunnel failed in configuration %s: %v", w.Cfg, err)
		w.Finish()
		return
	}
	w.installYield(&YieldPlan{Fn: func(p string, n int) {
		if p == "carrier.send.beforeLock" && callerHas("tunnelChannel).newStream") {
			w.Stat("orphansend_new_stream_writes_delayed", 1)
			time.Sleep(5 * time.Millisecond)
		}
	}})
	ctx, cancel := context.WithCancel(w.RootCtx)
	defer cancel()
	if how == "expired" {
		var c2 context.CancelFunc
		ctx, c2 = context.WithTimeout(ctx, time.Microsecond)
		defer c2()
		time.Sleep(2 * time.Millisecond)
	} else {
		cancel()
	}
	first := &RPCSpec{ID: "first", Method: shape, Client: []Op{{K: "invoke", N: 10}}, Handler: []Op{{K: "recv"}, {K: "send", N: 5}, {K: "ret"}}}
	if shape == "Bidi" {
		first.Client = []Op{{K: "open"}, {K: "send", N: 10}, {K: "close"}, {K: "recvall"}}
		first.Handler = []Op{{K: "recvall"}, {K: "send", N: 5}, {K: "ret"}}
	}
	w.Env.StartRPC(ctx, w.Ch, first)
	w.Stat("orphansend_runs", 1)
	if !w.awaitFree(first.done) {
		w.Violate("C07", "caller-waits-for-peer:invoke", "orphansend %s: a call made with a context that was already over did not return", w.SigExtra)
		w.Finish()
		return
	}
	second := &RPCSpec{ID: "second", Method: "Unary", Client: []Op{{K: "invoke", N: 10}}, Handler: []Op{{K: "recv"}, {K: "send", N: 5}, {K: "ret"}}}
	w.Env.StartRPC(w.RootCtx, w.Ch, second)
	if !w.awaitFree(second.done) {
		w.Violate("C08", "call-after-abandoned-call-hangs", "orphansend %s: the call made after one whose context was already over did not return", w.SigExtra)
	} else if v := buildViews(w.Env)["second"]; v == nil || v.invoke == nil || v.invoke.Err != "" {
		es := "<none>"
		if v != nil && v.invoke != nil {
			es = v.invoke.Err
		}
		w.Violate("C08", "call-after-abandoned-call-failed", "orphansend %s: the call made after one whose context was already over ended with %s", w.SigExtra, es)
	}
	time.Sleep(20 * time.Millisecond)
	select {
	case <-w.TCh.Done():
		w.Violate("C08", "rpc-did-not-begin-with-new-stream", "orphansend %s: the tunnel ended: %v", w.SigExtra, w.TCh.Err())
	default:
	}
	_ = fmt.Sprint
	w.Finish()
}
