package h

import (
	"bufio"
	"encoding/json"
	"fmt"
	"math/rand"
	"os"
	"runtime"
	"strconv"
	"strings"
	"sync/atomic"
	"testing"
	"time"
)

// TestWorker runs a shard of a check's fixed case list (or one replay case),
// one scenario at a time, appending one JSON result line per case to VERIF_OUT.
// The case about to run is written to VERIF_OUT.current first, so that a
// process death (panic in the library) is attributable.
func TestWorker(t *testing.T) {
	out := os.Getenv("VERIF_OUT")
	if out == "" {
		t.Skip("VERIF_OUT not set")
	}
	check := os.Getenv("VERIF_CHECK")
	tier := os.Getenv("VERIF_TIER")
	seed, _ := strconv.ParseInt(os.Getenv("VERIF_SEED"), 10, 64)
	shard, nshards := 0, 1
	if s := os.Getenv("VERIF_SHARD"); s != "" {
		fmt.Sscanf(s, "%d/%d", &shard, &nshards)
	}
	start, _ := strconv.Atoi(os.Getenv("VERIF_START"))
	wd := 120 * time.Second
	if s := os.Getenv("VERIF_CASE_TIMEOUT"); s != "" {
		if d, err := time.ParseDuration(s); err == nil {
			wd = d
		}
	}

	var cases []Case
	if rp := os.Getenv("VERIF_REPLAY"); rp != "" {
		b, err := os.ReadFile(rp)
		if err != nil {
			t.Fatal(err)
		}
		var rc struct {
			Case Case `json:"case"`
		}
		if err := json.Unmarshal(b, &rc); err != nil || rc.Case.Family == "" {
			var c Case
			if err := json.Unmarshal(b, &c); err != nil {
				t.Fatal(err)
			}
			rc.Case = c
		}
		cases = []Case{rc.Case}
		shard, nshards, start = 0, 1, 0
	} else {
		ls := listers[check]
		if ls == nil {
			t.Fatalf("no case list for check %q", check)
		}
		cases = ls(tier, seed)
		if fam := os.Getenv("VERIF_FAMILY"); fam != "" {
			// development aid: restrict a run to one family
			var keep []Case
			for _, c := range cases {
				if c.Family == fam {
					keep = append(keep, c)
				}
			}
			cases = keep
		}
		for i := range cases {
			cases[i].Idx = i
			cases[i].Check = check
		}
	}
	if os.Getenv("VERIF_LIST") != "" {
		f, _ := os.Create(out)
		fmt.Fprintf(f, "{\"n\": %d}\n", len(cases))
		f.Close()
		return
	}
	f, err := os.OpenFile(out, os.O_APPEND|os.O_CREATE|os.O_WRONLY, 0o644)
	if err != nil {
		t.Fatal(err)
	}
	defer f.Close()
	bw := bufio.NewWriter(f)
	for _, c := range cases {
		if c.Idx%nshards != shard || c.Idx < start {
			continue
		}
		os.WriteFile(out+".current", []byte(caseJSON(c)), 0o644)
		res := runCase(t, c, wd, out)
		b, _ := json.Marshal(res)
		bw.Write(b)
		bw.WriteByte('\n')
		bw.Flush()
	}
	os.Remove(out + ".current")
}

var caseRunning atomic.Int64
var currentWorld atomic.Pointer[World]

func init() { onNewWorld = func(w *World) { currentWorld.Store(w) } }

func runCase(t *testing.T, c Case, wd time.Duration, out string) (res Result) {
	fam := families[c.Family]
	if fam == nil {
		return Result{Case: c, Status: "error", Notes: []string{"unknown family " + c.Family}}
	}
	t0 := time.Now()
	gen := caseRunning.Add(1)
	// real-time watchdog outside the bubble
	stopWD := make(chan struct{})
	go func() {
		select {
		case <-stopWD:
		case <-time.After(wd):
			if caseRunning.Load() != gen {
				return
			}
			// two dumps three seconds apart: a goroutine that sits in a mutex wait
			// inside the library in both is a persistent lock wait (deadlock), which
			// synctest cannot see as "durably blocked"
			d1 := bubbleDump()
			time.Sleep(3 * time.Second)
			d2 := bubbleDump()
			r := Result{Case: c, Status: "hang", WallMS: time.Since(t0).Milliseconds(), Dump: d1, Dump2: d2}
			if cw := currentWorld.Load(); cw != nil {
				for _, o := range cw.Env.Log.OpenOps() {
					r.Notes = append(r.Notes, fmt.Sprintf("open op: %s %s %s[%d] size=%d", o.RPC, o.Side, o.K, o.Idx, o.Size))
					if len(r.Notes) > 40 {
						break
					}
				}
			}
			b, _ := json.Marshal(r)
			f, _ := os.OpenFile(out, os.O_APPEND|os.O_CREATE|os.O_WRONLY, 0o644)
			f.Write(append(b, '\n'))
			f.Close()
			os.Exit(3)
		}
	}()
	defer close(stopWD)
	if freeFamilies[c.Family] {
		w := RunFree(t, c.Cfg, func(w *World) {
			rng := rand.New(rand.NewSource(c.Seed))
			fam(w, &c, rng)
		})
		res = collect(w, c, t0)
		res.WallMS = time.Since(t0).Milliseconds()
		return res
	}
	ok := t.Run(fmt.Sprintf("case%d", c.Idx), func(t *testing.T) {
		w := RunScenario(t, c.Cfg, func(w *World) {
			rng := rand.New(rand.NewSource(c.Seed))
			if c.Seed%3 == 0 {
				w.EnableJitter(c.Seed)
			}
			fam(w, &c, rng)
			// the result is recorded inside the bubble: leaving it with
			// goroutines still blocked panics the process.
			res = collect(w, c, t0)
			if len(BubbleGoroutines()) > 0 {
				b, _ := json.Marshal(res)
				f, _ := os.OpenFile(out, os.O_APPEND|os.O_CREATE|os.O_WRONLY, 0o644)
				f.Write(append(b, '\n'))
				f.Close()
				os.WriteFile(out+".leaked", []byte(caseJSON(c)), 0o644)
				os.Exit(4)
			}
		})
		_ = w
	})
	res.WallMS = time.Since(t0).Milliseconds()
	if !ok && res.Status == "" {
		res = Result{Case: c, Status: "error", Notes: []string{"subtest failed"}}
	}
	return res
}

// bubbleDump returns the stacks of all goroutines that are in a synctest bubble
// or have a grpctunnel frame.
func bubbleDump() string {
	buf := make([]byte, 8<<20)
	n := runtime.Stack(buf, true)
	var keep []string
	for _, b := range strings.Split(string(buf[:n]), "\n\n") {
		if strings.Contains(b, "synctest bubble") || strings.Contains(b, "github.com/jhump/grpctunnel") {
			keep = append(keep, b)
		}
	}
	return strings.Join(keep, "\n\n")
}

func collect(w *World, c Case, t0 time.Time) Result {
	wc, nc := w.Wire.Counters(), w.Window.Counters()
	shape := logShape(w.Env)
	w.mu.Lock()
	defer w.mu.Unlock()
	stats := map[string]int{}
	for k, v := range w.Stats {
		stats[k] = v
	}
	for k, v := range wc {
		stats[k] += v
	}
	for k, v := range nc {
		stats[k] += v
	}
	res := Result{Case: c, Status: "done", Violations: append([]Violation(nil), w.Violations...), Stats: stats, Notes: w.Notes}
	res.Sig = sigOf(c.Family, w.Cfg.String(), shape, w.SigExtra)
	if c.Idx%25 == 0 || len(res.Violations) > 0 {
		s := shape
		if len(s) > 1500 {
			s = s[:1500] + "..."
		}
		res.Sample = map[string]any{"cfg": w.Cfg.String(), "log_shape": strings.Split(s, ";")}
	}
	return res
}
