package h

// lifecycle: random sequences of lifecycle operations on one reverse-tunnel
// server and one handler (Serve, Stop, GracefulStop, Close of a reverse
// channel, InitiateShutdown, RPCs in between), repeated and in unusual orders
// (Stop twice, GracefulStop then Stop, Serve after Stop, Close twice ...).
// Oracles: every call returns once a final Stop has been issued, Serve after
// Stop fails at once, the registry matches the model at every quiescent point,
// nothing is left behind.

import (
	"context"
	"fmt"
	"math/rand"
	"strings"
	"time"

	"google.golang.org/grpc/codes"
	"google.golang.org/grpc/status"

	"github.com/jhump/grpctunnel"
	"github.com/jhump/grpctunnel/tunnelpb"
)

func init() {
	families["lifecycle"] = famLifecycle
	add := func(id string, quick, thorough int) {
		prev := listers[id]
		listers[id] = func(tier string, seed int64) []Case {
			out := prev(tier, seed)
			rng := rand.New(rand.NewSource(seed*277 + 444))
			n := quick
			if tier == "thorough" {
				n = thorough
			}
			for i := 0; i < n; i++ {
				cfg := WorldCfg{Dir: "reverse"}
				if i%5 == 4 {
					cfg.ClientNoFC, cfg.ServerNoFC = true, true
				}
				if i%3 == 1 {
					cfg.Latency = time.Millisecond
				}
				out = append(out, Case{Family: "lifecycle", Seed: rng.Int63(), Cfg: cfg, P: map[string]int{"steps": 6 + rng.Intn(10)}})
			}
			return out
		}
	}
	add("C04", 120, 4000)
	add("C10", 120, 4000)
	add("C12", 60, 2000)
	add("C14", 60, 2000)
}

func famLifecycle(w *World, c *Case, rng *rand.Rand) {
	hd := w.NewHandler(w.Cfg.ClientNoFC, AffinityFromMD)
	w.Handler = hd
	tunnelpb.RegisterTunnelServiceServer(w.Conn, hd.Service())
	w.Stub = tunnelpb.NewTunnelServiceClient(w.Conn)
	rs := grpctunnel.NewReverseTunnelServer(w.Stub, w.serverOpts()...)
	desc, impl := NewSvc(w.Env, "lc")
	rs.RegisterService(desc, impl)
	w.mu.Lock()
	w.RevSrvs = []*grpctunnel.ReverseTunnelServer{rs}
	w.mu.Unlock()

	type call struct {
		what string
		done chan struct{}
		err  error
		ok   bool
	}
	var calls []*call
	var serves []*call
	stopped, closing := false, false
	nServe := 0
	startServe := func() {
		cl := &call{what: fmt.Sprintf("Serve#%d", nServe), done: make(chan struct{})}
		nServe++
		calls = append(calls, cl)
		serves = append(serves, cl)
		w.Env.wg.Add(1)
		go func() {
			defer w.Env.wg.Done()
			cl.ok, cl.err = rs.Serve(w.RootCtx)
			close(cl.done)
		}()
	}
	bg := func(what string, f func()) {
		cl := &call{what: what, done: make(chan struct{})}
		calls = append(calls, cl)
		go func() { f(); close(cl.done) }()
	}
	rpcN := 0
	settle := func() { w.Advance(20 * time.Millisecond) }
	steps := c.p("steps", 8)
	var trace []string
	for s := 0; s < steps; s++ {
		op := rng.Intn(11)
		switch {
		case op == 10:
			// a Serve call that is still on its way in (the tunnel has been opened, the serving
			// instance is not registered yet) when Stop / GracefulStop + Stop run: it was not part
			// of the shutdown, so once it gets there it must be refused and leave nothing behind
			how := rng.Intn(2)
			trace = append(trace, []string{"Serve||Stop", "Serve||GracefulStop+Stop"}[how])
			w.installYield(&YieldPlan{Parks: map[string][]time.Duration{"revsrv.serve.beforeAdd": {5 * time.Millisecond}}})
			before := len(serves)
			linksBefore := len(w.Conn.Links())
			startServe()
			w.Advance(time.Millisecond)
			if how == 1 {
				bg("GracefulStop", rs.GracefulStop)
				closing = true
				w.Advance(time.Millisecond)
			}
			bg("Stop", rs.Stop)
			stopped = true
			settle()
			w.installYield(&YieldPlan{})
			w.Stat("lifecycle_serve_racing_stop", 1)
			cl := serves[before]
			select {
			case <-cl.done:
				if cl.ok || cl.err == nil {
					w.Violate("C10", "serve-racing-stop-accepted", "lifecycle %v: a Serve call that registered after Stop had run returned started=%v err=%v", trace, cl.ok, cl.err)
				}
			default:
				w.Violate("C10", "serve-still-running-after-stop", "lifecycle %v: Stop has returned and a Serve call that was on its way in is still serving", trace)
			}
			for _, l := range w.Conn.Links()[linksBefore:] {
				cd, _ := l.ClientDone()
				if !cd || !l.ServerDone() {
					w.Violate("C10", "tunnel-alive-after-stop", "lifecycle %v: a reverse tunnel opened by a Serve call that was on its way in during Stop is still alive (client side finished: %v, peer's serving call returned: %v)", trace, cd, l.ServerDone())
				}
			}
		case op < 3:
			trace = append(trace, "Serve")
			before := len(serves)
			linksBefore := len(w.Conn.Links())
			startServe()
			settle()
			if stopped || closing {
				// a refused Serve must not leave the stream it opened behind (the peer's
				// serving call, its goroutines) for as long as the caller's context lives
				for _, l := range w.Conn.Links()[linksBefore:] {
					cd, _ := l.ClientDone()
					if !cd || !l.ServerDone() {
						w.Violate("C14", "refused-serve-left-stream-open", "lifecycle %v: Serve was refused (server stopping) but the carrier stream it opened is still open (client side finished: %v, peer's serving call returned: %v)", trace, cd, l.ServerDone())
					}
				}
				// a Serve call on a stopping / stopped server must fail at once
				cl := serves[before]
				select {
				case <-cl.done:
					if cl.ok || cl.err == nil {
						w.Violate("C10", "serve-after-stop-accepted", "Serve after Stop/GracefulStop returned started=%v err=%v (%v)", cl.ok, cl.err, trace)
					} else if st, _ := status.FromError(cl.err); st.Code() != codes.Unavailable {
						w.Note("Serve after stop: %v", cl.err)
					}
				default:
					w.Violate("C10", "serve-after-stop-hangs", "Serve called after Stop/GracefulStop is still running (%v)", trace)
				}
			}
		case op == 3:
			trace = append(trace, "Stop")
			bg("Stop", rs.Stop)
			stopped = true
			settle()
		case op == 4:
			trace = append(trace, "GracefulStop")
			bg("GracefulStop", rs.GracefulStop)
			closing = true
			settle()
		case op == 5:
			trace = append(trace, "CloseChannel")
			if all := hd.AllReverseTunnels(); len(all) > 0 {
				ch := all[rng.Intn(len(all))]
				ch.Close()
				if rng.Intn(2) == 0 {
					ch.Close() // twice
				}
			}
			settle()
		case op == 6:
			trace = append(trace, "InitiateShutdown")
			hd.InitiateShutdown() // affects forward tunnels only; must be harmless here
		default:
			trace = append(trace, "RPC")
			rpcN++
			id := fmt.Sprintf("lc%d", rpcN)
			ready := hd.AsChannel().Ready()
			sp := &RPCSpec{ID: id, Method: "Unary", Client: []Op{{K: "invoke", N: 100}}, Handler: []Op{{K: "recv"}, {K: "send", N: 100}, {K: "ret"}}}
			w.Env.StartRPC(context.Background(), hd.AsChannel(), sp)
			settle()
			v := buildViews(w.Env)[id]
			if v == nil || v.invoke == nil || v.invoke.RetSeq == 0 {
				w.Violate("C04", "op-hangs:client:invoke", "lifecycle %v: an RPC through AsChannel() did not return", trace)
			} else if !ready && v.invoke.Code != codes.Unavailable {
				w.Violate("C12", "no-tunnel-not-unavailable", "lifecycle %v: RPC with no ready tunnel ended with %q", trace, v.invoke.Err)
			} else if ready && !stopped && !closing && v.invoke.Err != "" {
				w.Violate("C12", "routed-rpc-failed", "lifecycle %v: Ready() was true and no shutdown was under way, but the RPC failed: %s", trace, v.invoke.Err)
			} else if (closing || stopped) && v.invoke.Err == "" {
				w.Violate("C10", "rpc-after-shutdown-not-unavailable", "lifecycle %v: an RPC started after GracefulStop/Stop succeeded", trace)
			}
		}
		// registry == live tunnels (quiescent)
		live := 0
		for _, l := range w.Conn.Links() {
			cd, _ := l.ClientDone()
			if !cd && !l.ServerDone() {
				live++
			}
		}
		if n := len(hd.AllReverseTunnels()); n != live {
			w.Violate("C12", "enumeration-mismatch", "lifecycle %v: AllReverseTunnels() has %d entries, %d carrier streams are alive", trace, n, live)
		}
		if hd.AsChannel().Ready() != (live > 0) {
			w.Violate("C12", "ready-mismatch", "lifecycle %v: Ready()=%v with %d live tunnels", trace, hd.AsChannel().Ready(), live)
		}
		w.Stat("lifecycle_steps", 1)
	}
	// the end: Stop (again), everything must come back
	bg("final Stop", rs.Stop)
	w.Advance(time.Second)
	for _, cl := range calls {
		select {
		case <-cl.done:
		default:
			w.Violate("C04", "lifecycle-call-never-returns:"+cl.what[:4], "lifecycle %v + final Stop: %s has not returned", trace, cl.what)
			if !strings.HasPrefix(cl.what, "Serve") {
				// "GracefulStop returns once those RPCs have finished. Stop returns only after every Serve call has returned"
				w.Violate("C10", "stop-never-returns:"+cl.what[:4], "lifecycle %v + final Stop: every RPC has finished and the tunnels are gone, but %s has not returned", trace, cl.what)
			}
		}
	}
	if n := len(hd.AllReverseTunnels()); n != 0 {
		w.Violate("C12", "all-reverse-tunnels-not-empty-at-end", "lifecycle %v: %d reverse tunnels registered after the final Stop", trace, n)
	}
	w.SigExtra = fmt.Sprint(trace)
	w.Stat("lifecycle_runs", 1)
	w.Finish()
}
