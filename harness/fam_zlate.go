package h

// Additions to case lists that have to be made after every other file's init
// has run (Go runs the init functions of a package's files in file name order;
// this file sorts last): families defined in files that sort before the base
// lister of a check, and direct additions to the C13 / C14 unions.

func init() {
	add := func(id string, extra func(tier string, seed int64) []Case) {
		prev := listers[id]
		listers[id] = func(tier string, seed int64) []Case {
			return append(prev(tier, seed), extra(tier, seed)...)
		}
	}
	add("C13", apiQuirkCases)
	add("C04", apiQuirkCases)
	add("C03", apiQuirkCases)
	add("C14", apiQuirkCases)
	add("C15", backpressureCases)
	add("C04", backpressureCases)
	add("C10", backpressureCases)
	add("C02", sharedMDCases)
	add("C08", orphanSendCases)
	add("C07", orphanSendCases)
	add("C09", contOverrunCases)
	add("C03", contOverrunCases)
	add("C13", contOverrunCases)
	add("C14", contOverrunCases)
	add("C14", sendFailCases)
	add("C12", callbackCfgCases)
	add("C13", lateWritesCases)
	add("C07", lateWritesCases)
	add("C14", lateWritesCases)
	add("C11", drainOpenCases)
	add("C10", drainOpenCases)
	add("C15", sharedMDCases)
}
