package h

// Raw peers: harness code that speaks the tunnel protocol frame by frame to
// the real library endpoint on the other side of a MemConn.
//   RawClient: plays the tunnel client (sends ClientToServer) against the real
//              tunnel server (forward: TunnelServiceHandler; reverse: ReverseTunnelServer).
//   RawServer: plays the tunnel server (sends ServerToClient) against the real
//              tunnel client (forward: NewChannel; reverse: the handler's reverse channel).

import (
	"context"
	"fmt"
	"sync"
	"time"

	"google.golang.org/genproto/googleapis/rpc/status"
	"google.golang.org/grpc/metadata"
	"google.golang.org/protobuf/types/known/emptypb"

	"github.com/jhump/grpctunnel"
	"github.com/jhump/grpctunnel/tunnelpb"
)

// ---- frame constructors ----

func fNew(id int64, method string, tag string, rev tunnelpb.ProtocolRevision, win uint32) *tunnelpb.ClientToServer {
	md := &tunnelpb.Metadata{Md: map[string]*tunnelpb.Metadata_Values{}}
	if tag != "" {
		md.Md["x-rpc"] = &tunnelpb.Metadata_Values{Val: []string{tag}}
	}
	return &tunnelpb.ClientToServer{StreamId: id, Frame: &tunnelpb.ClientToServer_NewStream{NewStream: &tunnelpb.NewStream{MethodName: method, RequestHeaders: md, ProtocolRevision: rev, InitialWindowSize: win}}}
}
func fMsg(id int64, size uint32, data []byte) *tunnelpb.ClientToServer {
	return &tunnelpb.ClientToServer{StreamId: id, Frame: &tunnelpb.ClientToServer_RequestMessage{RequestMessage: &tunnelpb.MessageData{Size: size, Data: data}}}
}
func fMore(id int64, data []byte) *tunnelpb.ClientToServer {
	return &tunnelpb.ClientToServer{StreamId: id, Frame: &tunnelpb.ClientToServer_MoreRequestData{MoreRequestData: data}}
}
func fHalf(id int64) *tunnelpb.ClientToServer {
	return &tunnelpb.ClientToServer{StreamId: id, Frame: &tunnelpb.ClientToServer_HalfClose{HalfClose: &emptypb.Empty{}}}
}
func fCancel(id int64) *tunnelpb.ClientToServer {
	return &tunnelpb.ClientToServer{StreamId: id, Frame: &tunnelpb.ClientToServer_Cancel{Cancel: &emptypb.Empty{}}}
}
func fWin(id int64, n uint32) *tunnelpb.ClientToServer {
	return &tunnelpb.ClientToServer{StreamId: id, Frame: &tunnelpb.ClientToServer_WindowUpdate{WindowUpdate: n}}
}

func sSettings(id int64, win uint32, revs ...tunnelpb.ProtocolRevision) *tunnelpb.ServerToClient {
	return &tunnelpb.ServerToClient{StreamId: id, Frame: &tunnelpb.ServerToClient_Settings{Settings: &tunnelpb.Settings{InitialWindowSize: win, SupportedProtocolRevisions: revs}}}
}
func sHdr(id int64, md metadata.MD) *tunnelpb.ServerToClient {
	m := &tunnelpb.Metadata{Md: map[string]*tunnelpb.Metadata_Values{}}
	for k, v := range md {
		m.Md[k] = &tunnelpb.Metadata_Values{Val: v}
	}
	return &tunnelpb.ServerToClient{StreamId: id, Frame: &tunnelpb.ServerToClient_ResponseHeaders{ResponseHeaders: m}}
}
func sMsg(id int64, size uint32, data []byte) *tunnelpb.ServerToClient {
	return &tunnelpb.ServerToClient{StreamId: id, Frame: &tunnelpb.ServerToClient_ResponseMessage{ResponseMessage: &tunnelpb.MessageData{Size: size, Data: data}}}
}
func sMore(id int64, data []byte) *tunnelpb.ServerToClient {
	return &tunnelpb.ServerToClient{StreamId: id, Frame: &tunnelpb.ServerToClient_MoreResponseData{MoreResponseData: data}}
}
func sClose(id int64, code int32, msg string, trailers metadata.MD) *tunnelpb.ServerToClient {
	m := &tunnelpb.Metadata{Md: map[string]*tunnelpb.Metadata_Values{}}
	for k, v := range trailers {
		m.Md[k] = &tunnelpb.Metadata_Values{Val: v}
	}
	return &tunnelpb.ServerToClient{StreamId: id, Frame: &tunnelpb.ServerToClient_CloseStream{CloseStream: &tunnelpb.CloseStream{Status: &status.Status{Code: code, Message: msg}, ResponseTrailers: m}}}
}
func sWin(id int64, n uint32) *tunnelpb.ServerToClient {
	return &tunnelpb.ServerToClient{StreamId: id, Frame: &tunnelpb.ServerToClient_WindowUpdate{WindowUpdate: n}}
}

// wrapBytes is the marshalled wrapperspb.BytesValue for a payload (field 1, bytes).
func wrapBytes(payload []byte) []byte {
	if len(payload) == 0 {
		return nil
	}
	out := []byte{0x0a}
	n := uint64(len(payload))
	for n >= 0x80 {
		out = append(out, byte(n)|0x80)
		n >>= 7
	}
	out = append(out, byte(n))
	return append(out, payload...)
}

// msgFramesC2S chunks one marshalled message into protocol frames.
func msgFramesC2S(id int64, msg []byte, chunk int) []*tunnelpb.ClientToServer {
	var out []*tunnelpb.ClientToServer
	first := msg
	if len(first) > chunk {
		first = msg[:chunk]
	}
	out = append(out, fMsg(id, uint32(len(msg)), first))
	for off := len(first); off < len(msg); off += chunk {
		end := off + chunk
		if end > len(msg) {
			end = len(msg)
		}
		out = append(out, fMore(id, msg[off:end]))
	}
	return out
}

func msgFramesS2C(id int64, msg []byte, chunk int) []*tunnelpb.ServerToClient {
	var out []*tunnelpb.ServerToClient
	first := msg
	if len(first) > chunk {
		first = msg[:chunk]
	}
	out = append(out, sMsg(id, uint32(len(msg)), first))
	for off := len(first); off < len(msg); off += chunk {
		end := off + chunk
		if end > len(msg) {
			end = len(msg)
		}
		out = append(out, sMore(id, msg[off:end]))
	}
	return out
}

// ---- raw client ----

// RawStreamView is what a raw client has received for one stream id.
type RawStreamView struct {
	Headers          int
	HeaderMD         *tunnelpb.Metadata
	Msgs             [][]byte // completely received response messages (marshalled)
	partial          []byte
	partialLen       int
	Closes           int
	Close            *tunnelpb.CloseStream
	WinUpdates       int
	Credit           uint64
	FramesAfterClose int
	Garbled          bool
}

type c2sStream interface {
	Send(*tunnelpb.ClientToServer) error
	Recv() (*tunnelpb.ServerToClient, error)
}

// RawClient plays the tunnel client.
type RawClient struct {
	w          *World
	str        c2sStream
	hangup     func() // ends the carrier stream cleanly from this side
	abort      context.CancelFunc
	Negotiated bool // both ends advertised negotiation: settings expected

	sendMu sync.Mutex

	mu            sync.Mutex
	Settings      *tunnelpb.Settings
	SettingsN     int
	SettingsFirst bool
	nFrames       int
	Streams       map[int64]*RawStreamView
	RecvDone      bool
	RecvErr       error
	AutoCredit    bool
	SendErrs      int
	Sent          int
}

func (rc *RawClient) view(id int64) *RawStreamView {
	v := rc.Streams[id]
	if v == nil {
		v = &RawStreamView{}
		rc.Streams[id] = v
	}
	return v
}

// Send sends one frame (serialised with the reader's automatic credits).
func (rc *RawClient) Send(f *tunnelpb.ClientToServer) error {
	rc.sendMu.Lock()
	defer rc.sendMu.Unlock()
	err := rc.str.Send(f)
	rc.mu.Lock()
	rc.Sent++
	if err != nil {
		rc.SendErrs++
	}
	rc.mu.Unlock()
	return err
}

func (rc *RawClient) readLoop() {
	for {
		f, err := rc.str.Recv()
		if err != nil {
			rc.mu.Lock()
			rc.RecvDone, rc.RecvErr = true, err
			rc.mu.Unlock()
			return
		}
		rc.mu.Lock()
		rc.nFrames++
		var credit uint32
		switch fr := f.Frame.(type) {
		case *tunnelpb.ServerToClient_Settings:
			rc.Settings = fr.Settings
			rc.SettingsN++
			if rc.nFrames == 1 {
				rc.SettingsFirst = true
			}
		default:
			v := rc.view(f.StreamId)
			if v.Closes > 0 {
				v.FramesAfterClose++
			}
			switch fr := f.Frame.(type) {
			case *tunnelpb.ServerToClient_ResponseHeaders:
				v.Headers++
				v.HeaderMD = fr.ResponseHeaders
			case *tunnelpb.ServerToClient_ResponseMessage:
				if v.partial != nil {
					v.Garbled = true
				}
				v.partialLen = int(fr.ResponseMessage.Size)
				v.partial = append([]byte{}, fr.ResponseMessage.Data...)
				credit = uint32(len(fr.ResponseMessage.Data))
				if len(v.partial) >= v.partialLen {
					v.Msgs = append(v.Msgs, v.partial)
					v.partial = nil
				}
			case *tunnelpb.ServerToClient_MoreResponseData:
				if v.partial == nil {
					v.Garbled = true
				} else {
					v.partial = append(v.partial, fr.MoreResponseData...)
					if len(v.partial) >= v.partialLen {
						v.Msgs = append(v.Msgs, v.partial)
						v.partial = nil
					}
				}
				credit = uint32(len(fr.MoreResponseData))
			case *tunnelpb.ServerToClient_CloseStream:
				v.Closes++
				if v.Close == nil {
					v.Close = fr.CloseStream
				}
			case *tunnelpb.ServerToClient_WindowUpdate:
				v.WinUpdates++
				v.Credit += uint64(fr.WindowUpdate)
			}
		}
		auto := rc.AutoCredit
		closed := rc.Streams[f.StreamId] != nil && rc.Streams[f.StreamId].Closes > 0
		rc.mu.Unlock()
		if auto && credit > 0 && !closed {
			go func(id int64, n uint32) { _ = rc.Send(fWin(id, n)) }(f.StreamId, credit)
		}
	}
}

// Snapshot copies the per-stream views.
func (rc *RawClient) Snapshot() (map[int64]RawStreamView, bool, error) {
	rc.mu.Lock()
	defer rc.mu.Unlock()
	out := map[int64]RawStreamView{}
	for id, v := range rc.Streams {
		out[id] = *v
	}
	return out, rc.RecvDone, rc.RecvErr
}

// Hangup ends the conversation cleanly from the raw client's side.
func (rc *RawClient) Hangup() {
	rc.sendMu.Lock()
	defer rc.sendMu.Unlock()
	rc.hangup()
}

// OpenRawClient opens a raw tunnel client against the real tunnel server in the
// world's direction (forward / reverse). advertise: send the negotiate header.
func (w *World) OpenRawClient(advertise bool, serverNoFC bool) (*RawClient, error) {
	rc := &RawClient{w: w, Streams: map[int64]*RawStreamView{}, AutoCredit: true}
	ctx, cancel := context.WithCancel(w.RootCtx)
	rc.abort = cancel
	switch w.Cfg.Dir {
	case "forward":
		w.Handler = w.NewHandler(serverNoFC, AffinityFromMD)
		desc, impl := NewSvc(w.Env, "fwd")
		w.Handler.RegisterService(desc, impl)
		tunnelpb.RegisterTunnelServiceServer(w.Conn, w.Handler.Service())
		w.Stub = tunnelpb.NewTunnelServiceClient(w.Conn)
		if advertise {
			ctx = metadata.AppendToOutgoingContext(ctx, "grpctunnel-negotiate", "on")
		}
		str, err := w.Stub.OpenTunnel(ctx)
		if err != nil {
			return nil, err
		}
		hdr, err := str.Header()
		if err != nil {
			return nil, err
		}
		v := hdr.Get("grpctunnel-negotiate")
		rc.Negotiated = advertise && len(v) > 0 && v[0] == "on"
		rc.str = str
		rc.hangup = func() { _ = str.CloseSend() }
	case "reverse":
		// raw network server; the real ReverseTunnelServer is the tunnel server
		got := make(chan tunnelpb.TunnelService_OpenReverseTunnelServer, 1)
		done := make(chan struct{})
		raw := &rawNetServer{onReverse: func(s tunnelpb.TunnelService_OpenReverseTunnelServer) error {
			if advertise {
				_ = s.SendHeader(metadata.Pairs("grpctunnel-negotiate", "on"))
			} else {
				_ = s.SendHeader(metadata.MD{})
			}
			md, _ := metadata.FromIncomingContext(s.Context())
			v := md.Get("grpctunnel-negotiate")
			rc.Negotiated = advertise && len(v) > 0 && v[0] == "on"
			got <- s
			select {
			case <-done:
			case <-w.Env.Quit:
			}
			return nil
		}}
		tunnelpb.RegisterTunnelServiceServer(w.Conn, raw)
		w.Stub = tunnelpb.NewTunnelServiceClient(w.Conn)
		var opts []grpctunnel.TunnelOption
		if serverNoFC {
			opts = append(opts, grpctunnel.WithDisableFlowControl())
		}
		rs := grpctunnel.NewReverseTunnelServer(w.Stub, opts...)
		desc, impl := NewSvc(w.Env, "rev-0")
		rs.RegisterService(desc, impl)
		w.startServe(rs, ctx, "rev-0")
		var s tunnelpb.TunnelService_OpenReverseTunnelServer
		select {
		case s = <-got:
		case <-time.After(time.Second):
			return nil, fmt.Errorf("reverse tunnel server never connected")
		}
		rc.str = s
		var once sync.Once
		rc.hangup = func() { once.Do(func() { close(done) }) }
	default:
		return nil, fmt.Errorf("raw client: unsupported dir %s", w.Cfg.Dir)
	}
	w.Env.wg.Add(1)
	go func() {
		defer w.Env.wg.Done()
		rc.readLoop()
	}()
	return rc, nil
}

type rawNetServer struct {
	tunnelpb.UnimplementedTunnelServiceServer
	onForward func(tunnelpb.TunnelService_OpenTunnelServer) error
	onReverse func(tunnelpb.TunnelService_OpenReverseTunnelServer) error
}

func (r *rawNetServer) OpenTunnel(s tunnelpb.TunnelService_OpenTunnelServer) error {
	if r.onForward == nil {
		return fmt.Errorf("not scripted")
	}
	return r.onForward(s)
}

func (r *rawNetServer) OpenReverseTunnel(s tunnelpb.TunnelService_OpenReverseTunnelServer) error {
	if r.onReverse == nil {
		return fmt.Errorf("not scripted")
	}
	return r.onReverse(s)
}

var errStartBlocked = fmt.Errorf("Start still blocked after 1s of virtual time")

// ---- raw server ----

type s2cStream interface {
	Send(*tunnelpb.ServerToClient) error
	Recv() (*tunnelpb.ClientToServer, error)
}

// RawServerStream is what a raw server has received for one stream id.
type RawServerStream struct {
	ID         int64
	Tag        string
	New        *tunnelpb.NewStream
	Msgs       [][]byte
	partial    []byte
	partialLen int
	DataBytes  int
	HalfClosed int
	Cancels    int
	WinUpdates int
	Credit     uint64
	Frames     int
}

// RawProgram tells the raw server what to send for a stream: OnNew frames are
// sent when the new_stream frame arrives, OnHalf frames when half-close arrives.
// Frame stream ids are rewritten to the real id; id -2 in a frame keeps "unknown id".
type RawProgram struct {
	OnNew  []*tunnelpb.ServerToClient
	OnHalf []*tunnelpb.ServerToClient
}

// RawServer plays the tunnel server.
type RawServer struct {
	w          *World
	str        s2cStream
	end        func(error)
	sendMu     sync.Mutex
	AutoCredit bool

	mu       sync.Mutex
	Programs map[string]*RawProgram // by x-rpc tag
	Streams  map[int64]*RawServerStream
	Order    []int64
	RecvDone bool
	RecvErr  error
	ready    chan struct{}
	// StartCh receives the result of the real client's Start call (forward only).
	StartCh chan StartResult
}

// StartResult is what NewChannel(...).Start returned.
type StartResult struct {
	Ch  grpctunnel.TunnelChannel
	Err error
}

// Send sends one frame to the real tunnel client.
func (rs *RawServer) Send(f *tunnelpb.ServerToClient) error {
	rs.sendMu.Lock()
	defer rs.sendMu.Unlock()
	return rs.str.Send(f)
}

// End makes the carrier handler return (nil = clean end of stream).
func (rs *RawServer) End(err error) { rs.end(err) }

func (rs *RawServer) loop() {
	for {
		f, err := rs.str.Recv()
		if err != nil {
			rs.mu.Lock()
			rs.RecvDone, rs.RecvErr = true, err
			rs.mu.Unlock()
			return
		}
		rs.mu.Lock()
		st := rs.Streams[f.StreamId]
		var toSend []*tunnelpb.ServerToClient
		var credit uint32
		if ns, ok := f.Frame.(*tunnelpb.ClientToServer_NewStream); ok {
			tag := ""
			if v := ns.NewStream.GetRequestHeaders().GetMd()["x-rpc"]; v != nil && len(v.Val) > 0 {
				tag = v.Val[0]
			}
			st = &RawServerStream{ID: f.StreamId, Tag: tag, New: ns.NewStream}
			rs.Streams[f.StreamId] = st
			rs.Order = append(rs.Order, f.StreamId)
			if p := rs.Programs[tag]; p != nil {
				toSend = p.OnNew
			}
		} else if st != nil {
			st.Frames++
			switch fr := f.Frame.(type) {
			case *tunnelpb.ClientToServer_RequestMessage:
				st.partialLen = int(fr.RequestMessage.Size)
				st.partial = append([]byte{}, fr.RequestMessage.Data...)
				st.DataBytes += len(fr.RequestMessage.Data)
				credit = uint32(len(fr.RequestMessage.Data))
				if len(st.partial) >= st.partialLen {
					st.Msgs = append(st.Msgs, st.partial)
					st.partial = nil
				}
			case *tunnelpb.ClientToServer_MoreRequestData:
				st.partial = append(st.partial, fr.MoreRequestData...)
				st.DataBytes += len(fr.MoreRequestData)
				credit = uint32(len(fr.MoreRequestData))
				if st.partial != nil && len(st.partial) >= st.partialLen {
					st.Msgs = append(st.Msgs, st.partial)
					st.partial = nil
				}
			case *tunnelpb.ClientToServer_HalfClose:
				st.HalfClosed++
				if p := rs.Programs[st.Tag]; p != nil && st.HalfClosed == 1 {
					toSend = p.OnHalf
				}
			case *tunnelpb.ClientToServer_Cancel:
				st.Cancels++
			case *tunnelpb.ClientToServer_WindowUpdate:
				st.WinUpdates++
				st.Credit += uint64(fr.WindowUpdate)
			}
		}
		auto := rs.AutoCredit
		id := f.StreamId
		rs.mu.Unlock()
		if auto && credit > 0 {
			_ = rs.Send(sWin(id, credit))
		}
		for _, out := range toSend {
			o := &tunnelpb.ServerToClient{StreamId: id, Frame: out.Frame}
			if out.StreamId >= 2000000 {
				o.StreamId = out.StreamId - 2000000 // a specific other id
			} else if out.StreamId <= -2 || out.StreamId >= 1000000 {
				o.StreamId = out.StreamId // deliberately foreign id
			}
			_ = rs.Send(o)
		}
	}
}

// Snapshot copies per-stream views of a raw server.
func (rs *RawServer) Snapshot() map[string]RawServerStream {
	rs.mu.Lock()
	defer rs.mu.Unlock()
	out := map[string]RawServerStream{}
	for _, st := range rs.Streams {
		out[st.Tag] = *st
	}
	return out
}

// RawServerOpts configures how a raw server opens the tunnel.
type RawServerOpts struct {
	Advertise bool // send the negotiate response header
	// Preamble frames sent right after the stream opens (e.g. the settings frame or a deviant one).
	Preamble []*tunnelpb.ServerToClient
	// EndBeforeSettings: end the stream without sending anything.
	EndImmediately bool
	ClientNoFC     bool
}

// OpenRawServer registers a raw tunnel server and starts the real tunnel client
// against it. For forward it returns the result of Start; for reverse the real
// handler's reverse channel is found through AllReverseTunnels.
func (w *World) OpenRawServer(o RawServerOpts, programs map[string]*RawProgram) (*RawServer, grpctunnel.TunnelChannel, error) {
	rs := &RawServer{w: w, Programs: programs, Streams: map[int64]*RawServerStream{}, AutoCredit: true, ready: make(chan struct{})}
	done := make(chan error, 1)
	var once sync.Once
	rs.end = func(err error) { once.Do(func() { done <- err }) }
	var copts []grpctunnel.TunnelOption
	if o.ClientNoFC {
		copts = append(copts, grpctunnel.WithDisableFlowControl())
	}
	run := func(str s2cStream) error {
		rs.str = str
		close(rs.ready)
		if o.EndImmediately {
			return nil
		}
		for _, f := range o.Preamble {
			_ = rs.Send(f)
		}
		w.Env.wg.Add(1)
		go func() {
			defer w.Env.wg.Done()
			rs.loop()
		}()
		select {
		case err := <-done:
			return err
		case <-w.Env.Quit:
			return nil
		}
	}
	switch w.Cfg.Dir {
	case "forward":
		raw := &rawNetServer{onForward: func(s tunnelpb.TunnelService_OpenTunnelServer) error {
			if o.Advertise {
				_ = s.SendHeader(metadata.Pairs("grpctunnel-negotiate", "on"))
			} else {
				_ = s.SendHeader(metadata.MD{})
			}
			return run(s)
		}}
		tunnelpb.RegisterTunnelServiceServer(w.Conn, raw)
		w.Stub = tunnelpb.NewTunnelServiceClient(w.Conn)
		rs.StartCh = make(chan StartResult, 1)
		go func() {
			ch, err := grpctunnel.NewChannel(w.Stub, copts...).Start(w.RootCtx)
			rs.StartCh <- StartResult{ch, err}
		}()
		w.Advance(time.Second)
		select {
		case r := <-rs.StartCh:
			if r.Err == nil {
				w.Ch, w.TCh, w.Outer = r.Ch, r.Ch, r.Ch
			}
			return rs, r.Ch, r.Err
		default:
			return rs, nil, errStartBlocked
		}
	case "reverse":
		// real handler is the tunnel client; the raw peer is a network client
		w.Handler = w.NewHandler(o.ClientNoFC, AffinityFromMD)
		tunnelpb.RegisterTunnelServiceServer(w.Conn, w.Handler.Service())
		w.Stub = tunnelpb.NewTunnelServiceClient(w.Conn)
		ctx, cancel := context.WithCancel(w.RootCtx)
		if o.Advertise {
			ctx = metadata.AppendToOutgoingContext(ctx, "grpctunnel-negotiate", "on")
		}
		str, err := w.Stub.OpenReverseTunnel(ctx)
		if err != nil {
			cancel()
			return rs, nil, err
		}
		w.Env.wg.Add(1)
		go func() {
			defer w.Env.wg.Done()
			defer cancel()
			err := run(reverseClientAdapter{str})
			if err == nil {
				_ = str.CloseSend()
				select {
				case <-w.Env.Quit:
				case <-time.After(time.Hour):
				}
			}
		}()
		w.Advance(time.Second)
		all := w.Handler.AllReverseTunnels()
		if len(all) != 1 {
			return rs, nil, fmt.Errorf("reverse channel not registered (%d)", len(all))
		}
		w.Ch, w.TCh = all[0], all[0]
		return rs, all[0], nil
	}
	return nil, nil, fmt.Errorf("raw server: unsupported dir %s", w.Cfg.Dir)
}

type reverseClientAdapter struct {
	s tunnelpb.TunnelService_OpenReverseTunnelClient
}

func (a reverseClientAdapter) Send(f *tunnelpb.ServerToClient) error   { return a.s.Send(f) }
func (a reverseClientAdapter) Recv() (*tunnelpb.ClientToServer, error) { return a.s.Recv() }
