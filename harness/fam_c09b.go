package h

// C09/C16, client role: a raw tunnel server sends (deviant) response frame
// sequences to the real tunnel client.

import (
	"fmt"
	"math/rand"
	"runtime"
	"time"

	"google.golang.org/grpc/codes"
	"google.golang.org/grpc/metadata"

	"github.com/jhump/grpctunnel"
	"github.com/jhump/grpctunnel/tunnelpb"
)

var srvDevKinds = []string{
	"none", "drop-hdr", "dup-hdr", "hdr-after-msg", "drop-msg-first", "drop-msg-cont", "dup-msg", "envelope-inside", "data-plus1", "data-plus1-noclose", "envelope-inside-noclose", "envelope-after-empty-chunk", "overrun-one-frame", "size-plus1", "size-minus1", "size-64MiB", "size-max",
	"dup-close", "frame-after-close", "settings-on-stream", "empty-frame", "retarget-unknown-id", "retarget-negative-id", "retarget-finished-id",
	"win-absurd", "win-zero", "overrun", "no-response", "two-responses", "close-error", "close-first", "big-chunk",
	"preamble-id0", "preamble-negative", "preamble-settings-again", "preamble-unknown", "overrun-understated",
}

var srvShapes = []string{"Unary", "ClientStream", "ServerStream", "Bidi"}

func init() {
	families["rawsrv"] = famRawSrv
	prev := listers["C09"]
	listers["C09"] = func(tier string, seed int64) []Case {
		out := prev(tier, seed)
		rng := rand.New(rand.NewSource(seed*7919 + 99))
		reps := 1
		if tier == "thorough" {
			reps = 25
		}
		for r := 0; r < reps; r++ {
			for _, k := range srvDevKinds {
				for _, sh := range srvShapes {
					for _, dir := range []string{"forward", "reverse"} {
						out = append(out, Case{Family: "rawsrv", Seed: rng.Int63(), Cfg: WorldCfg{Dir: dir}, S: map[string]string{"dev": k, "shape": sh}})
					}
				}
			}
		}
		return out
	}
}

func famRawSrv(w *World, c *Case, rng *rand.Rand) {
	kind, shape := c.s("dev", "none"), c.s("shape", "Unary")
	w.SigExtra = kind + "/" + shape
	w.Wire.JudgeServer = false
	w.Window.JudgeServer = false
	respSize := []int{10, 20000, 16384 - 3, 40000}[rng.Intn(4)]
	if kind == "drop-msg-cont" || kind == "envelope-inside" || kind == "envelope-inside-noclose" || kind == "data-plus1-noclose" || kind == "big-chunk" {
		respSize = 20000 + rng.Intn(20000)
	}
	if (kind == "dup-msg" || kind == "two-responses") && respSize > 20000 {
		respSize = 20000 // two of them must fit the caller's window: the caller reads late
	}
	payload := wrapBytes(GenPayload("v", dirResp, 0, respSize))
	hdr := metadata.MD{"h": {"1"}}
	trl := metadata.MD{"t": {"2"}}
	msgFrames := msgFramesS2C(0, payload, 16384)
	var frames []*tunnelpb.ServerToClient
	frames = append(frames, sHdr(0, hdr))
	frames = append(frames, msgFrames...)
	frames = append(frames, sClose(0, 0, "", trl))
	nmsgs := 1
	expect := "clean" // clean, fail, any, tunnel-dead, rexhausted
	var preamble []*tunnelpb.ServerToClient
	sentComplete := map[int]bool{len(payload): true}
	switch kind {
	case "none":
	case "drop-hdr":
		frames = frames[1:]
		hdr = nil
	case "dup-hdr":
		frames = append([]*tunnelpb.ServerToClient{frames[0], sHdr(0, metadata.MD{"h": {"second"}})}, frames[1:]...)
	case "hdr-after-msg":
		frames = append(append([]*tunnelpb.ServerToClient{}, frames[1:len(frames)-1]...), frames[0], frames[len(frames)-1])
		expect = "any"
	case "drop-msg-first":
		frames = append([]*tunnelpb.ServerToClient{frames[0]}, frames[2:]...)
		if len(msgFrames) > 1 {
			expect = "fail"
		} else {
			expect = "noresp"
		}
		sentComplete = map[int]bool{}
	case "drop-msg-cont":
		frames = append(append([]*tunnelpb.ServerToClient{}, frames[:2]...), frames[len(frames)-1])
		expect = "noresp"
		sentComplete = map[int]bool{}
	case "dup-msg", "two-responses":
		frames = append(append([]*tunnelpb.ServerToClient{}, frames[:len(frames)-1]...), msgFramesS2C(0, wrapBytes(GenPayload("v", dirResp, 1, respSize)), 16384)...)
		frames = append(frames, sClose(0, 0, "", trl))
		nmsgs = 2
		if shape == "Unary" || shape == "ClientStream" {
			expect = "fail"
		}
	case "envelope-inside", "envelope-inside-noclose":
		frames = append(append([]*tunnelpb.ServerToClient{}, frames[:2]...), append([]*tunnelpb.ServerToClient{sMsg(0, 5, []byte{1, 2, 3, 4, 5})}, frames[2:]...)...)
		expect = "fail"
		sentComplete = map[int]bool{}
		if kind == "envelope-inside-noclose" {
			// the peer never closes the stream: the caller's side, having failed the call on the
			// malformed response, must finish it alone (and tell the peer)
			frames = frames[:len(frames)-1]
		}
	case "envelope-after-empty-chunk":
		// a message is announced (size > 0) with an empty first chunk, and then another envelope
		// arrives: the first message was never completed
		frames = append(append([]*tunnelpb.ServerToClient{}, frames[:1]...), append([]*tunnelpb.ServerToClient{sMsg(0, uint32(len(payload)), nil)}, frames[1:]...)...)
		expect = "fail"
		sentComplete = map[int]bool{}
	case "data-plus1", "data-plus1-noclose":
		last := frames[len(frames)-2]
		switch fr := last.Frame.(type) {
		case *tunnelpb.ServerToClient_ResponseMessage:
			fr.ResponseMessage.Data = append(fr.ResponseMessage.Data, 0x55)
		case *tunnelpb.ServerToClient_MoreResponseData:
			fr.MoreResponseData = append(fr.MoreResponseData, 0x55)
		}
		expect = "fail"
		sentComplete = map[int]bool{}
		if kind == "data-plus1-noclose" {
			frames = frames[:len(frames)-1]
		}
	case "size-plus1":
		frames[1].Frame.(*tunnelpb.ServerToClient_ResponseMessage).ResponseMessage.Size++
		expect = "noresp"
		sentComplete = map[int]bool{}
	case "size-minus1":
		frames[1].Frame.(*tunnelpb.ServerToClient_ResponseMessage).ResponseMessage.Size--
		expect = "fail"
		sentComplete = map[int]bool{}
	case "size-64MiB", "size-max":
		// the announced size is peer-controlled and not bounded by the window: the endpoint must not
		// allocate according to it
		if kind == "size-max" {
			frames[1].Frame.(*tunnelpb.ServerToClient_ResponseMessage).ResponseMessage.Size = 0xffffffff
		} else {
			frames[1].Frame.(*tunnelpb.ServerToClient_ResponseMessage).ResponseMessage.Size = 64 << 20
		}
		expect = "noresp"
		sentComplete = map[int]bool{}
	case "dup-close":
		frames = append(frames, sClose(0, int32(codes.Internal), "second close", nil))
	case "frame-after-close":
		frames = append(frames, sMsg(0, 3, []byte{1, 2, 3}), sHdr(0, metadata.MD{"late": {"x"}}))
	case "settings-on-stream":
		frames = append([]*tunnelpb.ServerToClient{frames[0], {StreamId: 0, Frame: &tunnelpb.ServerToClient_Settings{Settings: &tunnelpb.Settings{InitialWindowSize: 1}}}}, frames[1:]...)
		expect = "fail"
	case "empty-frame":
		frames = append([]*tunnelpb.ServerToClient{frames[0], {StreamId: 0}}, frames[1:]...)
		expect = "fail"
	case "retarget-unknown-id":
		frames = append([]*tunnelpb.ServerToClient{frames[0], {StreamId: 1000000 + int64(rng.Intn(5)), Frame: sMsg(0, 1, []byte{1}).Frame}}, frames[1:]...)
		expect = "tunnel-dead"
	case "retarget-negative-id":
		// not pinned: the client treats ids at or below its last allocated id as "used and disposed"
		frames = append([]*tunnelpb.ServerToClient{frames[0], {StreamId: -7, Frame: sMsg(0, 1, []byte{1}).Frame}}, frames[1:]...)
	case "retarget-finished-id":
		// id of the finished "fin" stream is 0 in every run (first RPC): mark with -2 -> rewritten below
		frames = append([]*tunnelpb.ServerToClient{frames[0], {StreamId: -1000, Frame: sMsg(0, 1, []byte{1}).Frame}}, frames[1:]...)
	case "preamble-id0", "preamble-negative", "preamble-settings-again", "preamble-unknown":
		// a frame for a stream that was never created arrives right after the settings, before the
		// caller's side has created its first stream
		f := &tunnelpb.ServerToClient{StreamId: map[string]int64{"preamble-id0": 0, "preamble-negative": -7, "preamble-settings-again": -1, "preamble-unknown": 3}[kind], Frame: sMsg(0, 1, []byte{1}).Frame}
		if kind == "preamble-settings-again" {
			f.Frame = sSettings(-1, 65536, 0, 1).Frame
		} else if rng.Intn(2) == 0 {
			f.Frame = sClose(0, 0, "", nil).Frame
		}
		preamble = append(preamble, f)
		expect = "tunnel-dead"
	case "win-absurd":
		frames = append([]*tunnelpb.ServerToClient{sWin(0, 0xffffffff), sWin(0, 0xffffffff), sWin(0, 1)}, frames...)
	case "win-zero":
		frames = append([]*tunnelpb.ServerToClient{sWin(0, 0)}, frames...)
	case "overrun":
		// far more than the client's advertised window while the caller does not read
		big := wrapBytes(GenPayload("v", dirResp, 0, 200000))
		frames = append([]*tunnelpb.ServerToClient{sHdr(0, hdr)}, msgFramesS2C(0, big, 16384)...)
		frames = append(frames, sClose(0, 0, "", trl))
		expect = "rexhausted"
		sentComplete = map[int]bool{len(big): true}
	case "overrun-understated":
		// the burst is made of message frames that announce fewer bytes (0 or 1) than they carry
		frames = []*tunnelpb.ServerToClient{sHdr(0, hdr)}
		for i := 0; i < 12; i++ {
			frames = append(frames, sMsg(0, uint32(i%2), make([]byte, 16384)))
		}
		frames = append(frames, sClose(0, 0, "", trl))
		// (overrun and malformed at once: a caller that reads late finds the malformed frame in
		// its queue before it learns of the overrun, so only "the call fails" is pinned here; the
		// ResourceExhausted verdict for this kind of burst is taken on the serving side, where
		// the close frame shows it - overrun family, kind understated-envelopes)
		expect = "fail"
		sentComplete = map[int]bool{}
	case "overrun-one-frame":
		// a single frame one byte larger than the caller's window, arriving while the caller's reader
		// is parked on an empty queue (Invoke) or before it reads (the streaming shapes)
		big := make([]byte, 65537)
		frames = []*tunnelpb.ServerToClient{sHdr(0, hdr), sMsg(0, uint32(len(big)), big), sClose(0, 0, "", trl)}
		expect = "rexhausted"
		sentComplete = map[int]bool{}
	case "no-response":
		frames = []*tunnelpb.ServerToClient{sHdr(0, hdr), sClose(0, 0, "", trl)}
		nmsgs = 0
		if shape == "Unary" || shape == "ClientStream" {
			expect = "fail"
		}
	case "close-error":
		frames = []*tunnelpb.ServerToClient{sHdr(0, hdr), sClose(0, int32(codes.NotFound), "nope", trl)}
		nmsgs = 0
		expect = "code:NotFound"
	case "close-first":
		frames = append([]*tunnelpb.ServerToClient{sClose(0, int32(codes.Aborted), "early", trl)}, frames...)
		nmsgs = 0
		hdr = nil
		expect = "code:Aborted"
	case "big-chunk":
		frames = []*tunnelpb.ServerToClient{sHdr(0, hdr), sMsg(0, uint32(len(payload)), payload), sClose(0, 0, "", trl)}
		expect = "any"
	}
	// the victim's frames are sent when its half-close arrives (every shape half-closes)
	progs := map[string]*RawProgram{
		"fin": {OnHalf: []*tunnelpb.ServerToClient{sMsg(0, 5, wrapBytes(GenPayload("fin", dirResp, 0, 3))), sClose(0, 0, "", nil)}},
		"by":  {OnNew: []*tunnelpb.ServerToClient{sHdr(0, metadata.MD{"by": {"1"}})}, OnHalf: []*tunnelpb.ServerToClient{sMsg(0, 17, wrapBytes(GenPayload("by", dirResp, 0, 15))), sClose(0, 0, "", metadata.MD{"byt": {"1"}})}},
		"v":   {OnHalf: frames},
	}
	rs, ch, err := w.OpenRawServer(RawServerOpts{Advertise: true, Preamble: append([]*tunnelpb.ServerToClient{sSettings(-1, 65536, 0, 1)}, preamble...)}, progs)
	if len(preamble) > 0 && ch == nil && w.Cfg.Dir == "reverse" && len(w.Conn.Links()) > 0 {
		// the reverse tunnel was gone again before it could be looked up in the registry: the
		// handler's call must have returned, with an error
		e, done := w.Conn.Links()[0].ServerReturn()
		w.Stat("rawsrv_expect_dead", 1)
		w.Stat("rawsrv_conversations", 1)
		if !done {
			w.Violate("C09", "client-tunnel-level-violation-not-fatal", "raw server deviation %s: frame for a stream id never allocated did not end the tunnel", kind)
		} else if e == nil {
			w.Violate("C09", "client-tunnel-level-violation-nil-error", "raw server deviation %s ended the tunnel but the serving call returned a nil error", kind)
		}
		rs.End(nil)
		w.Advance(time.Second)
		w.Finish()
		return
	}
	if err != nil || ch == nil {
		w.Violate("C09", "raw-open-failed", "real client could not open the tunnel against a conforming raw server: %v", err)
		w.Finish()
		return
	}
	// rewrite the "finished id" marker: fin is the first RPC -> id 1 (ids start at 1 in this client)
	for _, f := range frames {
		if f.StreamId == -1000 {
			f.StreamId = 1000001 // replaced below once fin's id is known
		}
	}
	runtime.GC()
	var m0, m1 runtime.MemStats
	runtime.ReadMemStats(&m0)
	fin := &RPCSpec{ID: "fin", Method: "Unary", Client: []Op{{K: "invoke", N: 7}}}
	w.Env.StartRPC(w.RootCtx, ch, fin)
	w.Advance(time.Millisecond)
	if kind == "retarget-finished-id" {
		snap := rs.Snapshot()
		for _, f := range frames {
			if f.StreamId == 1000001 {
				f.StreamId = 2000000 + snap["fin"].ID // loop() keeps ids >= 1000000 verbatim; see below
			}
		}
	}
	by := &RPCSpec{ID: "by", Method: "Bidi", Client: []Op{{K: "open"}, {K: "send", N: 5}, {K: "sync", Name: "late"}, {K: "send", N: 6}, {K: "close"}, {K: "header"}, {K: "recvall"}, {K: "trailer"}}}
	var v *RPCSpec
	switch shape {
	case "Unary":
		v = &RPCSpec{ID: "v", Method: "Unary", UseHeaderOpt: true, UseTrailerOpt: true, Client: []Op{{K: "invoke", N: 9}}}
	case "ClientStream":
		v = &RPCSpec{ID: "v", Method: "ClientStream", Client: []Op{{K: "open"}, {K: "send", N: 9}, {K: "send", N: 19}, {K: "close"}, {K: "sync", Name: "read"}, {K: "recvall"}, {K: "trailer"}}}
	case "ServerStream":
		v = &RPCSpec{ID: "v", Method: "ServerStream", Client: []Op{{K: "open"}, {K: "send", N: 9}, {K: "close"}, {K: "sync", Name: "read"}, {K: "recvall"}, {K: "trailer"}}}
	default:
		v = &RPCSpec{ID: "v", Method: "Bidi", Client: []Op{{K: "open"}, {K: "send", N: 9}, {K: "close"}, {K: "sync", Name: "read"}, {K: "recvall"}, {K: "trailer"}}}
	}
	w.Env.StartRPC(w.RootCtx, ch, by)
	w.Advance(time.Millisecond)
	w.Env.StartRPC(w.RootCtx, ch, v)
	w.Advance(time.Second)
	w.Env.Signal("read")
	w.Advance(time.Second)
	w.Env.Signal("late")
	w.Advance(time.Second)
	w.Stat("rawsrv_conversations", 1)
	runtime.ReadMemStats(&m1)
	if alloc := int64(m1.TotalAlloc) - int64(m0.TotalAlloc); alloc > 48<<20 && kind != "overrun" {
		w.Violate("C09", "endpoint-bloated-by-peer-input", "raw server deviation %s/%s: the caller's endpoint allocated %d MiB while processing responses carrying less than 200 kB", kind, shape, alloc>>20)
	}

	views := buildViews(w.Env)
	term := func(id string) (*OpRec, []OpRec) {
		vw := views[id]
		if vw == nil {
			return nil, nil
		}
		var t *OpRec
		var msgs []OpRec
		for i := range vw.all {
			r := &vw.all[i]
			if r.Side != "client" || r.RetSeq == 0 {
				continue
			}
			if r.K == "invoke" || (r.K == "recv" && r.Err != "") {
				if t == nil {
					t = r
				}
			}
			if (r.K == "recv" && r.Err == "") || (r.K == "invoke" && r.Err == "") {
				msgs = append(msgs, *r)
			}
		}
		return t, msgs
	}
	tunnelDead := false
	select {
	case <-ch.Done():
		tunnelDead = true
	default:
	}
	vt, vmsgs := term("v")
	bt, bmsgs := term("by")
	for _, r := range w.Env.Log.OpenOps() {
		w.Violate("C09", "client-op-hung", "raw server deviation %s/%s: client op %s of rpc %s still blocked", kind, shape, r.K, r.RPC)
	}
	// no fabricated / truncated / merged message is ever delivered
	for _, m := range vmsgs {
		w.Stat("rawsrv_msgs_checked", 1)
		wire := len(wrapBytes(make([]byte, m.GotSize)))
		if !m.GotOK || !sentComplete[wire] {
			w.Violate("C09", "caller-shown-unsent-message", "raw server deviation %s/%s: caller received a %d-byte message (generated payload: %v) that the peer never completely and exactly sent", kind, shape, m.GotSize, m.GotOK)
		}
	}
	if expect == "tunnel-dead" {
		w.Stat("rawsrv_expect_dead", 1)
		if !tunnelDead {
			w.Violate("C09", "client-tunnel-level-violation-not-fatal", "raw server deviation %s: frame for a stream id never allocated did not end the tunnel", kind)
		} else if ch.Err() == nil {
			w.Violate("C09", "client-tunnel-level-violation-nil-error", "raw server deviation %s ended the tunnel but Err() is nil", kind)
		}
		// both ends observe the end: the peer must see the carrier stream finish
		// (half-close on a forward tunnel, the serving call's return on a reverse one)
		rs.mu.Lock()
		peerSaw := rs.RecvDone
		rs.mu.Unlock()
		if tunnelDead && !peerSaw {
			w.Violate("C04", "aborted-tunnel-not-visible-to-peer", "raw server deviation %s: the client aborted the tunnel (%v) but the carrier stream was neither half-closed nor ended: the peer's serving call would never return", kind, ch.Err())
		}
		w.Stat("rawsrv_abort_visibility_checked", 1)
	} else {
		if tunnelDead {
			w.Violate("C09", "client-stream-level-violation-killed-tunnel", "raw server deviation %s/%s is at most a stream-level violation but the channel is done: %v", kind, shape, ch.Err())
			w.Violate("C03", "raw-deviation-killed-tunnel", "raw server deviation %s/%s on one stream ended the tunnel: %v", kind, shape, ch.Err())
		} else {
			// bystander exact
			if bt == nil || !bt.EOF || len(bmsgs) != 1 || !bmsgs[0].GotOK || bmsgs[0].GotSize != 15 {
				w.Violate("C09", "client-bystander-disturbed", "raw server deviation %s/%s: bystander call did not complete normally (terminal %v, %d msgs)", kind, shape, bt, len(bmsgs))
				w.Violate("C03", "raw-deviation-disturbed-bystander", "raw server deviation %s/%s: bystander call did not complete normally", kind, shape)
			}
			w.Stat("rawsrv_bystander_checked", 1)
		}
		if vt == nil {
			w.Violate("C09", "client-op-hung", "raw server deviation %s/%s: victim call has no terminal result", kind, shape)
		} else {
			// success as the application sees it: Invoke returned nil, or the
			// stream reported end-of-stream; for a non-server-streaming call
			// the generated CloseAndRecv/Invoke wrappers turn an end-of-stream
			// without any message into an error (bare io.EOF), so that is not success.
			ok := (vt.K == "invoke" && vt.Err == "") || (vt.K == "recv" && vt.EOF)
			if ok && (shape == "Unary" || shape == "ClientStream") && len(vmsgs) == 0 {
				ok = false
			}
			switch {
			case expect == "clean":
				w.Stat("rawsrv_expect_clean", 1)
				if !ok || len(vmsgs) != nmsgs {
					w.Violate("C09", "ignored-deviation-changed-outcome", "raw server deviation %s/%s must be ignored but the call ended %q with %d message(s) (want OK, %d)", kind, shape, vt.Err, len(vmsgs), nmsgs)
				}
			case expect == "fail":
				w.Stat("rawsrv_expect_fail", 1)
				if ok {
					prop, key := "C09", "stream-level-violation-reported-success"
					if kind == "two-responses" || kind == "dup-msg" || kind == "no-response" {
						prop, key = "C16", "non-streaming-response-count-reported-success"
					}
					w.Violate(prop, key, "raw server deviation %s/%s: the caller was told the call succeeded", kind, shape)
				}
			case expect == "noresp":
				// truncated/absent message followed by an OK close: a non-server-streaming caller must not get success
				if ok && (shape == "Unary" || shape == "ClientStream") {
					w.Violate("C16", "non-streaming-response-count-reported-success", "raw server deviation %s/%s: zero complete responses but the caller was told the call succeeded", kind, shape)
				}
				// a close frame in the middle of a message is a malformed frame sequence on every
				// shape: a streaming caller must not be told that the responses ended normally
				midMessage := kind == "drop-msg-cont" || kind == "size-plus1" || kind == "size-64MiB" || kind == "size-max"
				if midMessage {
					w.Stat("rawsrv_close_inside_message", 1)
				}
				// (drop-msg-first on a single-frame message leaves a well-formed empty response stream)
				if ok && midMessage {
					w.Violate("C09", "close-inside-message-reported-as-end-of-stream", "raw server deviation %s/%s: the stream was closed with OK in the middle of a response message, the caller was told the call ended normally", kind, shape)
					w.Violate("C01", "truncated-message-reported-as-end-of-stream", "raw server deviation %s/%s: the stream was closed with OK in the middle of a response message, the caller was told the call ended normally", kind, shape)
				}
			case expect == "rexhausted":
				w.Stat("rawsrv_expect_rexhausted", 1)
				// An Invoke reads while the burst arrives: if it keeps up, its window is restored
				// between frames and the burst is no overrun from the receiver's point of view.
				// Only a consumer that is verifiably not reading (the streaming shapes wait for
				// "read") makes ResourceExhausted the one legal outcome.
				keptUp := kind == "overrun" && shape == "Unary" && vt.K == "invoke" && vt.Err == "" && vt.GotOK && vt.GotSize == 200000
				if keptUp {
					w.Stat("rawsrv_overrun_consumer_kept_up", 1)
				} else if vt.Code != codes.ResourceExhausted {
					w.Violate("C06", "overrun-not-resource-exhausted", "raw server overran the caller's window on a %s call: terminal result %q, want ResourceExhausted", shape, vt.Err)
				}
			case len(expect) > 5 && expect[:5] == "code:":
				if vt.Code.String() != expect[5:] {
					w.Violate("C09", "wrong-status-from-raw-server", "raw server %s/%s: caller got %q, peer sent %s", kind, shape, vt.Err, expect[5:])
				}
			}
		}
	}
	if !tunnelDead {
		// every call has ended, one way or the other, and the tunnel is still up: the caller's side
		// keeps nothing of them (a call that its own side failed on a malformed response included)
		open := 0
		for _, vw := range views {
			if vw.spec != nil && clientTerminal(vw) == nil {
				open++
			}
		}
		if ids, finished, ok := grpctunnel.VerifClientStreamIDs(ch); ok && !finished && len(ids) > open {
			w.Violate("C14", "client-table-mismatch", "raw server deviation %s/%s: every call but %d has ended, yet the channel's stream table still holds %v", kind, shape, open, ids)
		}
		w.Stat("rawsrv_table_checks_while_up", 1)
	}
	rs.End(nil)
	w.Advance(time.Second)
	select {
	case <-ch.Done():
		if expect != "tunnel-dead" && ch.Err() != nil && !tunnelDead {
			w.Violate("C04", "clean-end-reported-as-error", "raw server ended the tunnel cleanly but Err() = %v", ch.Err())
		}
	default:
		w.Violate("C04", "channel-not-done-after-server-hangup", "raw server ended the stream but the channel's Done() is not closed")
	}
	w.CheckTables(ch, 0, 0, true, "after raw server hung up")
	_ = fmt.Sprint
	w.Finish()
}

// ---- raw client: offence against a stream whose handler is blocked in Send ----

func init() {
	families["blockedsend"] = famBlockedSend
	prev := listers["C09"]
	listers["C09"] = func(tier string, seed int64) []Case {
		out := prev(tier, seed)
		rng := rand.New(rand.NewSource(seed*7933 + 909))
		reps := 1
		if tier == "thorough" {
			reps = 30
		}
		for r := 0; r < reps; r++ {
			for _, off := range []string{"cancel", "empty", "overrun", "data-without-envelope", "envelope-inside", "window-then-cancel", "hangup"} {
				for _, win := range []int{0, 10, 20000} {
					for _, dir := range []string{"forward", "reverse"} {
						for _, shape := range []string{"ServerStream", "Bidi"} {
							out = append(out, Case{Family: "blockedsend", Seed: rng.Int63(), Cfg: WorldCfg{Dir: dir}, P: map[string]int{"win": win}, S: map[string]string{"offence": off, "shape": shape}})
						}
					}
				}
			}
		}
		return out
	}
}

func famBlockedSend(w *World, c *Case, rng *rand.Rand) {
	off, shape, win := c.s("offence", "cancel"), c.s("shape", "Bidi"), c.p("win", 0)
	w.SigExtra = fmt.Sprintf("%s/%s/%d", off, shape, win)
	w.Wire.JudgeClient = false
	w.Window.JudgeClient = false
	rc, err := w.OpenRawClient(true, false)
	if err != nil {
		w.Violate("C09", "raw-open-failed", "raw client could not open the tunnel: %v", err)
		w.Finish()
		return
	}
	rc.AutoCredit = false
	w.Wait()
	// the victim's handler sends far more than the window the raw peer advertised and never gets credit
	w.Env.registerSpec(&RPCSpec{ID: "v", Method: shape, Handler: []Op{{K: "recv"}, {K: "send", N: 30000}, {K: "send", N: 30000}, {K: "ret"}}})
	w.Env.registerSpec(&RPCSpec{ID: "by", Method: "Unary", Handler: []Op{{K: "recv"}, {K: "send", N: 7}, {K: "ret"}}})
	_ = rc.Send(fNew(0, "verif.Svc/"+shape, "v", 1, uint32(win)))
	for _, f := range msgFramesC2S(0, wrapBytes(GenPayload("v", dirReq, 0, 10)), 16384) {
		_ = rc.Send(f)
	}
	if shape == "ServerStream" {
		_ = rc.Send(fHalf(0))
	}
	w.Wait()
	blocked := false
	for _, r := range w.Env.Log.OpenOps() {
		if r.RPC == "v" && r.K == "send" {
			blocked = true
		}
	}
	if blocked {
		w.Stat("blockedsend_handler_blocked", 1)
	}
	switch off {
	case "cancel":
		_ = rc.Send(fCancel(0))
	case "empty":
		_ = rc.Send(&tunnelpb.ClientToServer{StreamId: 0})
	case "overrun":
		for _, f := range msgFramesC2S(0, make([]byte, 70000), 16384) {
			_ = rc.Send(f)
		}
	case "data-without-envelope":
		_ = rc.Send(fMore(0, []byte{1, 2, 3}))
	case "envelope-inside":
		_ = rc.Send(fMsg(0, 100, []byte{1, 2, 3}))
		_ = rc.Send(fMsg(0, 100, []byte{1, 2, 3}))
	case "window-then-cancel":
		_ = rc.Send(fWin(0, 5))
		_ = rc.Send(fCancel(0))
	case "hangup":
	}
	w.Wait()
	// an ordinary RPC on the same tunnel must still be answered
	if off != "hangup" {
		_ = rc.Send(fNew(1, "verif.Svc/Unary", "by", 1, 65536))
		for _, f := range msgFramesC2S(1, wrapBytes(GenPayload("by", dirReq, 0, 5)), 16384) {
			_ = rc.Send(f)
		}
		_ = rc.Send(fHalf(1))
		w.Advance(time.Second)
		views, recvDone, recvErr := rc.Snapshot()
		if recvDone {
			w.Violate("C09", "stream-level-violation-killed-tunnel", "offence %s against a stream whose handler is blocked on the window ended the tunnel: %v", w.SigExtra, recvErr)
		}
		if b := views[1]; b.Closes != 1 || b.Close.GetStatus().GetCode() != 0 || len(b.Msgs) != 1 {
			w.Violate("C09", "bystander-stream-disturbed", "offence %s against a stream whose handler is blocked on the window: the next RPC on the tunnel was not answered (closes=%d)", w.SigExtra, b.Closes)
			w.Violate("C03", "raw-deviation-disturbed-bystander", "offence %s against a stream whose handler is blocked on the window: the next RPC on the tunnel was not answered", w.SigExtra)
		}
		// (data after a half-close is dropped by the receiver, so an overrun on the
		// half-closed server-stream is not even noticed: nothing is demanded there)
		if off == "cancel" || off == "window-then-cancel" || off == "empty" || (off == "overrun" && shape == "Bidi") {
			if v := views[0]; v.Closes != 1 {
				w.Violate("C09", "offending-stream-not-closed", "offence %s: the offending stream received %d close frames", w.SigExtra, v.Closes)
			}
			for _, r := range w.Env.Log.OpenOps() {
				if r.RPC == "v" {
					w.Violate("C07", "handler-op-still-blocked:"+r.K, "offence %s: handler op %s of the finished stream is still blocked", w.SigExtra, r.K)
				}
			}
		}
	}
	w.Stat("blockedsend_runs", 1)
	rc.Hangup()
	w.Advance(time.Second)
	for _, r := range w.Env.Log.OpenOps() {
		w.Violate("C09", "handler-op-open-after-hangup", "offence %s: handler %s op %s still blocked after the peer hung up", w.SigExtra, r.RPC, r.K)
	}
	w.CheckTables(nil, 0, 0, true, "after raw peer hung up")
	w.Finish()
}
