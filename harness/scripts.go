package h

// Script builders: deadlock-free scripted RPCs of the four shapes.

import (
	"fmt"
	"math/rand"
	"sort"
	"strings"
	"time"

	"google.golang.org/grpc/codes"
)

// ScriptOpts steer script generation.
type ScriptOpts struct {
	MaxMsgs     int
	MaxSize     int
	Pacing      string // eager, lag, mixed
	Status      bool   // random non-OK statuses allowed
	Meta        bool   // headers / trailers / request metadata
	Shapes      []string
	BudgetLeft  *int // total payload bytes budget shared across RPCs (nil = none)
	BigProb     int  // percentage of multi-megabyte messages
	FlowControl bool // revision one negotiated (some patterns are only deadlock-free with flow control)
}

func (o *ScriptOpts) size(rng *rand.Rand) int {
	n := genSize(rng, o.MaxSize)
	if o.BigProb > 0 && rng.Intn(100) < o.BigProb {
		n = hugeSizes[rng.Intn(len(hugeSizes))]
	}
	if o.BudgetLeft != nil {
		if n > *o.BudgetLeft {
			n = rng.Intn(64)
		}
		*o.BudgetLeft -= n
	}
	return n
}

var hugeSizes = []int{1<<20 + 1, 3<<20 + 5, 4 << 20, 8<<20 - 1, 8 << 20, 8<<20 + 1}

func pace(rng *rand.Rand, pacing string) []Op {
	switch pacing {
	case "lag":
		return []Op{{K: "sleep", D: time.Duration(1+rng.Intn(50)) * time.Millisecond}}
	case "mixed":
		if rng.Intn(3) == 0 {
			return []Op{{K: "sleep", D: time.Duration(1+rng.Intn(20)) * time.Millisecond}}
		}
	}
	return nil
}

var shapeNames = []string{"Unary", "ClientStream", "ServerStream", "Bidi-full", "Bidi-pingpong", "Bidi-half", "Bidi-early-return", "Empty-streams"}

// GenRPC builds one scripted RPC.
func GenRPC(rng *rand.Rand, id string, o ScriptOpts) *RPCSpec {
	shapes := o.Shapes
	if len(shapes) == 0 {
		shapes = shapeNames
	}
	shape := shapes[rng.Intn(len(shapes))]
	spec := &RPCSpec{ID: id}
	ret := Op{K: "ret", Code: codes.OK}
	if o.Status && rng.Intn(2) == 0 {
		ret.Code = allCodes[rng.Intn(len(allCodes))]
		ret.Msg = utf8Samples[rng.Intn(len(utf8Samples))]
		ret.Details = rng.Intn(4)
	}
	// one RPC in six is received the way a schema-agnostic relay receives (see RPCSpec.Relay)
	spec.Relay = rng.Intn(6) == 0
	var hpre, hpost []Op
	if o.Meta {
		spec.ReqMD = genMD(rng, "req")
		// several header / trailer calls draw their keys from the same small pool, so that a key is
		// often filled over more than one call (the values must arrive in call order)
		via := func() string { return []string{"", "", "ctx"}[rng.Intn(3)] }
		switch rng.Intn(5) {
		case 0:
			hpre = append(hpre, Op{K: "sethdr", MD: genMD(rng, "h")})
		case 1:
			hpre = append(hpre, Op{K: "sethdr", MD: genMD(rng, "h"), Name: via()}, Op{K: "sendhdr", MD: genMD(rng, "h"), Name: via()})
		case 2:
			hpre = append(hpre, Op{K: "sendhdr", MD: genMD(rng, "h")})
		case 3:
			hpre = append(hpre, Op{K: "sethdr", MD: genMD(rng, "h"), Name: via()}, Op{K: "sethdr", MD: genMD(rng, "h"), Name: via()}, Op{K: "sethdr", MD: genMD(rng, "h"), Name: via()})
		}
		switch rng.Intn(4) {
		case 0:
			hpost = append(hpost, Op{K: "settrl", MD: genMD(rng, "t")})
		case 1:
			hpost = append(hpost, Op{K: "settrl", MD: genMD(rng, "t"), Name: via()}, Op{K: "settrl", MD: genMD(rng, "t"), Name: via()})
		case 2:
			hpost = append(hpost, Op{K: "settrl", MD: genMD(rng, "t"), Name: via()}, Op{K: "settrl", MD: genMD(rng, "t"), Name: via()}, Op{K: "settrl", MD: genMD(rng, "t"), Name: via()})
		}
		spec.UseHeaderOpt = rng.Intn(2) == 0
		spec.UseTrailerOpt = rng.Intn(2) == 0
		spec.UsePeerOpt = rng.Intn(3) == 0
		spec.UseChanOpt = rng.Intn(3) == 0
		if rng.Intn(3) == 0 {
			spec.Creds = map[string]string{"authorization": fmt.Sprintf("token-%d", rng.Intn(100))}
			// sometimes a credential key that the caller's own metadata also carries (the values add up),
			// and sometimes a second credentials option with the same key
			var keys []string
			for k := range spec.ReqMD {
				if !strings.HasSuffix(k, "-bin") {
					keys = append(keys, k)
				}
			}
			sort.Strings(keys) // (map order is random; the case must be determined by its seed)
			if len(keys) > 0 && rng.Intn(2) == 0 {
				spec.Creds[keys[0]] = "from-credentials"
			}
			if rng.Intn(2) == 0 {
				spec.Creds2 = map[string]string{"authorization": "second-option", "x-second": "1"}
			}
		}
	}
	n := 1 + rng.Intn(o.MaxMsgs)
	m := 1 + rng.Intn(o.MaxMsgs)
	switch shape {
	case "Unary":
		spec.Method = "Unary"
		spec.Client = []Op{{K: "invoke", N: o.size(rng)}}
		spec.Handler = append(spec.Handler, Op{K: "ident"})
		spec.Handler = append(spec.Handler, hpre...)
		spec.Handler = append(spec.Handler, Op{K: "recv"})
		spec.Handler = append(spec.Handler, pace(rng, o.Pacing)...)
		if ret.Code == codes.OK {
			spec.Handler = append(spec.Handler, Op{K: "send", N: o.size(rng)})
		}
		spec.Handler = append(spec.Handler, hpost...)
		spec.Handler = append(spec.Handler, ret)
	case "ClientStream":
		spec.Method = "ClientStream"
		spec.Client = []Op{{K: "open"}}
		for i := 0; i < n; i++ {
			spec.Client = append(spec.Client, Op{K: "send", N: o.size(rng)})
			spec.Client = append(spec.Client, pace(rng, o.Pacing)...)
		}
		spec.Client = append(spec.Client, Op{K: "close"}, Op{K: "header"}, Op{K: "recvall"}, Op{K: "trailer"})
		spec.Handler = append(spec.Handler, Op{K: "ident"})
		spec.Handler = append(spec.Handler, hpre...)
		for i := 0; i < n; i++ {
			spec.Handler = append(spec.Handler, Op{K: "recv"})
			spec.Handler = append(spec.Handler, pace(rng, o.Pacing)...)
		}
		spec.Handler = append(spec.Handler, Op{K: "recv"}) // EOF
		if ret.Code == codes.OK || rng.Intn(2) == 0 {
			// (also: the response is written and the handler then fails)
			spec.Handler = append(spec.Handler, Op{K: "send", N: o.size(rng)})
		}
		spec.Handler = append(spec.Handler, hpost...)
		spec.Handler = append(spec.Handler, ret)
	case "ServerStream":
		spec.Method = "ServerStream"
		spec.Client = []Op{{K: "open"}, {K: "send", N: o.size(rng)}, {K: "close"}}
		if rng.Intn(2) == 0 {
			spec.Client = append(spec.Client, Op{K: "header"})
		}
		for i := 0; i < m; i++ {
			spec.Client = append(spec.Client, Op{K: "recv"})
			spec.Client = append(spec.Client, pace(rng, o.Pacing)...)
		}
		spec.Client = append(spec.Client, Op{K: "recvall"}, Op{K: "trailer"}, Op{K: "header"})
		spec.Handler = append(spec.Handler, hpre...)
		spec.Handler = append(spec.Handler, Op{K: "recv"}, Op{K: "ident"})
		for i := 0; i < m; i++ {
			spec.Handler = append(spec.Handler, Op{K: "send", N: o.size(rng)})
			spec.Handler = append(spec.Handler, pace(rng, o.Pacing)...)
		}
		spec.Handler = append(spec.Handler, hpost...)
		spec.Handler = append(spec.Handler, ret)
	case "Bidi-pingpong":
		spec.Method = "Bidi"
		spec.Client = []Op{{K: "open"}}
		spec.Handler = append(spec.Handler, hpre...)
		for i := 0; i < n; i++ {
			spec.Client = append(spec.Client, Op{K: "send", N: o.size(rng)}, Op{K: "recv"})
			spec.Client = append(spec.Client, pace(rng, o.Pacing)...)
			spec.Handler = append(spec.Handler, Op{K: "recv"}, Op{K: "send", N: o.size(rng)})
		}
		spec.Client = append(spec.Client, Op{K: "close"}, Op{K: "recvall"}, Op{K: "trailer"}, Op{K: "header"})
		spec.Handler = append(spec.Handler, Op{K: "recv"}) // EOF
		spec.Handler = append(spec.Handler, hpost...)
		spec.Handler = append(spec.Handler, ret)
	case "Bidi-early-return":
		// the handler answers the first request and returns while the caller is still sending:
		// later sends may fail or not; frames for the finished stream must be ignored
		spec.Method = "Bidi"
		spec.Client = []Op{{K: "open"}}
		for i := 0; i < n+2; i++ {
			spec.Client = append(spec.Client, Op{K: "send", N: o.size(rng)})
		}
		spec.Client = append(spec.Client, Op{K: "close"}, Op{K: "recvall"}, Op{K: "trailer"}, Op{K: "header"})
		spec.Handler = append(spec.Handler, hpre...)
		// (the caller does not read before it has sent everything: the single response must fit
		// the one-slot receive queue of revision zero, or the pattern is not deadlock-free there)
		respSize := rng.Intn(200)
		if o.FlowControl {
			// with flow control it must fit the caller's window unread (the caller reads only after sending)
			if respSize = o.size(rng); respSize > 60000 {
				respSize = 60000
			}
		}
		spec.Handler = append(spec.Handler, Op{K: "recv"}, Op{K: "send", N: respSize})
		spec.Handler = append(spec.Handler, hpost...)
		spec.Handler = append(spec.Handler, ret)
	case "Empty-streams":
		// no message in either direction
		if rng.Intn(2) == 0 {
			spec.Method = "ClientStream"
			if ret.Code == codes.OK {
				ret.Code, ret.Msg = codes.FailedPrecondition, "nothing to say"
			}
		} else {
			spec.Method = "Bidi"
		}
		spec.Client = []Op{{K: "open"}, {K: "close"}, {K: "recvall"}, {K: "trailer"}, {K: "header"}}
		spec.Handler = append(spec.Handler, hpre...)
		spec.Handler = append(spec.Handler, Op{K: "recv"}) // EOF
		spec.Handler = append(spec.Handler, hpost...)
		spec.Handler = append(spec.Handler, ret)
	case "Bidi-half":
		spec.Method = "Bidi"
		spec.Client = []Op{{K: "open"}}
		for i := 0; i < n; i++ {
			spec.Client = append(spec.Client, Op{K: "send", N: o.size(rng)})
		}
		spec.Client = append(spec.Client, Op{K: "close"})
		for i := 0; i < m; i++ {
			spec.Client = append(spec.Client, Op{K: "recv"})
			spec.Client = append(spec.Client, pace(rng, o.Pacing)...)
		}
		spec.Client = append(spec.Client, Op{K: "recvall"}, Op{K: "trailer"})
		spec.Handler = append(spec.Handler, Op{K: "recvall"})
		spec.Handler = append(spec.Handler, hpre...)
		for i := 0; i < m; i++ {
			spec.Handler = append(spec.Handler, Op{K: "send", N: o.size(rng)})
		}
		spec.Handler = append(spec.Handler, hpost...)
		spec.Handler = append(spec.Handler, ret)
	default: // Bidi-full
		spec.Method = "Bidi"
		spec.Client = []Op{{K: "open"}}
		for i := 0; i < n; i++ {
			spec.Client = append(spec.Client, Op{K: "send", N: o.size(rng)})
			spec.Client = append(spec.Client, pace(rng, o.Pacing)...)
		}
		spec.Client = append(spec.Client, Op{K: "close"}, Op{K: "sync", Name: "crecv-" + id}, Op{K: "trailer"})
		for i := 0; i < m; i++ {
			spec.ClientRecv = append(spec.ClientRecv, Op{K: "recv"})
			spec.ClientRecv = append(spec.ClientRecv, pace(rng, o.Pacing)...)
		}
		spec.ClientRecv = append(spec.ClientRecv, Op{K: "recvall"}, Op{K: "signal", Name: "crecv-" + id})
		spec.Handler = append(spec.Handler, hpre...)
		for i := 0; i < m; i++ {
			spec.Handler = append(spec.Handler, Op{K: "send", N: o.size(rng)})
			spec.Handler = append(spec.Handler, pace(rng, o.Pacing)...)
		}
		spec.Handler = append(spec.Handler, Op{K: "sync", Name: "hrecv-" + id})
		spec.Handler = append(spec.Handler, hpost...)
		spec.Handler = append(spec.Handler, ret)
		for i := 0; i < n; i++ {
			spec.HandlerRecv = append(spec.HandlerRecv, Op{K: "recv"})
			spec.HandlerRecv = append(spec.HandlerRecv, pace(rng, o.Pacing)...)
		}
		spec.HandlerRecv = append(spec.HandlerRecv, Op{K: "recvall"}, Op{K: "signal", Name: "hrecv-" + id})
	}
	return spec
}
