package h

// C05. Two levels:
//  fccore     (E3): the private sender/receiver pair wired back to back over two
//             FIFO queues, every atomic-level step parked for a PRNG-chosen
//             virtual duration (= a random total order of the steps), with a
//             conservation monitor and a progress oracle at quiescence.
//  fcprogress (E1): whole tunnels, stepped reader pacing, progress oracle on the
//             tap at every quiescent point.

import (
	"sync/atomic"
	"context"
	"fmt"
	"math/rand"
	"strings"
	"sync"
	"testing/synctest"
	"time"

	"github.com/jhump/grpctunnel"
)

func init() {
	families["fccore"] = famFCCore
	families["fcprogress"] = famFCProgress
	listers["C05"] = func(tier string, seed int64) []Case {
		var out []Case
		rng := rand.New(rand.NewSource(seed*2903 + 5))
		ncore, nprog := 120, 160
		if tier == "thorough" {
			ncore, nprog = 30000, 12000
		}
		for i := 0; i < ncore; i++ {
			out = append(out, Case{Family: "fccore", Seed: rng.Int63(), Cfg: WorldCfg{Dir: "forward"}, P: map[string]int{"runs": 40}})
		}
		for i := 0; i < nprog; i++ {
			cfg := WorldCfg{Dir: allDirs[rng.Intn(len(allDirs))], CapFrames: []int{0, 0, 1, 4}[rng.Intn(4)]}
			out = append(out, Case{Family: "fcprogress", Seed: rng.Int63(), Cfg: cfg, P: map[string]int{"resp": i % 2, "cstall": (i / 2) % 2}})
		}
		return out
	}
}

var fcCoalesced int64 // credit updates larger than one chunk delivered to a sender (evidence)

type fcEvent struct {
	k string
	n int
}

type fcRun struct {
	mu                    sync.Mutex
	window                int64
	sWin                  int64 // model of the sender's window
	dataFly               int64
	queued                int64
	credFly               int64
	sent                  int64
	consumed              int64
	order                 []string
	senderAt              string
	updBetweenLoadAndWait int
	waitsEntered          int
	viol                  []string
	cancelled             bool
}

func (r *fcRun) ev(k string) {
	if len(r.order) < 48 {
		r.order = append(r.order, k)
	}
}

func (r *fcRun) check(where string) {
	if r.cancelled {
		return
	}
	if r.sWin < 0 {
		r.viol = append(r.viol, fmt.Sprintf("%s: sender used more than its window (model window %d)", where, r.sWin))
	}
	if r.sWin+r.dataFly+r.queued+r.credFly != r.window {
		r.viol = append(r.viol, fmt.Sprintf("%s: conservation broken: senderWindow %d + dataInFlight %d + queued %d + creditInFlight %d != %d", where, r.sWin, r.dataFly, r.queued, r.credFly, r.window))
	}
}

func famFCCore(w *World, c *Case, rng *rand.Rand) {
	runs := c.p("runs", 40)
	orders := map[string]bool{}
	for i := 0; i < runs; i++ {
		sig := w.fcCoreRun(rng, i)
		orders[sig] = true
	}
	w.Stat("fccore_runs", runs)
	w.Stat("fccore_coalesced_credit_updates", int(atomic.SwapInt64(&fcCoalesced, 0)))
	w.Stat("fccore_distinct_orders_in_case", len(orders))
	keys := make([]string, 0, len(orders))
	for k := range orders {
		keys = append(keys, k)
	}
	w.SigExtra = sigOf(keys...)
	grpctunnel.VerifSetYield(nil)
	w.Finish()
}

func (w *World) fcCoreRun(rng *rand.Rand, idx int) string {
	window := []uint32{1, 3, 10, 100, 16384, 65536}[rng.Intn(6)]
	nmsg := 1 + rng.Intn(5)
	sizes := make([]int, nmsg)
	for i := range sizes {
		switch rng.Intn(4) {
		case 0:
			sizes[i] = rng.Intn(4)
		case 1:
			sizes[i] = int(window) + rng.Intn(3) - 1
		case 2:
			sizes[i] = int(window)*(1+rng.Intn(3)) + rng.Intn(5)
		default:
			sizes[i] = rng.Intn(3 * int(window+2))
		}
		if sizes[i] < 0 {
			sizes[i] = 0
		}
		if sizes[i] > 300000 {
			sizes[i] = 300000
		}
	}
	parkMax := []int{0, 2, 5, 20}[rng.Intn(4)]
	// one PRNG stream per goroutine so that the harness itself is race free
	seeds := [5]int64{rng.Int63(), rng.Int63(), rng.Int63(), rng.Int63(), rng.Int63()}
	r := &fcRun{window: int64(window), sWin: int64(window)}
	ctx, cancel := context.WithCancel(context.Background())
	defer cancel()
	cancelAt := -1
	if rng.Intn(6) == 0 {
		cancelAt = rng.Intn(20)
	}

	type chunk struct{ b []byte }
	dataQ := make(chan chunk, 1<<16)
	credQ := make(chan uint32, 1<<16)
	var snd grpctunnel.VerifSender
	var rcv grpctunnel.VerifReceiver
	quit := make(chan struct{})
	var wg sync.WaitGroup

	parkRng := map[string]*rand.Rand{}
	var parkMu sync.Mutex
	yields := 0
	grpctunnel.VerifSetYield(func(point string) {
		if !strings.HasPrefix(point, "fc.") {
			return
		}
		parkMu.Lock()
		pr := parkRng[point]
		if pr == nil {
			pr = rand.New(rand.NewSource(seeds[0] + int64(len(parkRng))*7919))
			parkRng[point] = pr
		}
		d := 0
		if parkMax > 0 {
			d = pr.Intn(parkMax + 1)
		}
		yields++
		doCancel := cancelAt >= 0 && yields == cancelAt
		parkMu.Unlock()
		r.mu.Lock()
		r.ev(point)
		switch point {
		case "fc.send.loaded", "fc.send.beforeCAS", "fc.send.reserved":
			r.senderAt = point
		case "fc.send.beforeWait":
			r.senderAt = point
			r.waitsEntered++
		case "fc.update.added":
			if r.senderAt == "fc.send.loaded" || r.senderAt == "fc.send.beforeWait" {
				r.updBetweenLoadAndWait++
			}
		}
		r.mu.Unlock()
		if doCancel {
			r.mu.Lock()
			r.cancelled = true
			r.mu.Unlock()
			cancel()
		}
		if d > 0 {
			time.Sleep(time.Duration(d) * time.Nanosecond)
		}
	})

	snd = grpctunnel.VerifNewSender(ctx, window, func(data []byte, total uint32, first bool) error {
		r.mu.Lock()
		r.sWin -= int64(len(data))
		r.dataFly += int64(len(data))
		r.sent += int64(len(data))
		r.ev(fmt.Sprintf("emit%d", len(data)))
		if len(data) > 16384 {
			r.viol = append(r.viol, fmt.Sprintf("chunk of %d bytes", len(data)))
		}
		r.check("emit")
		r.mu.Unlock()
		dataQ <- chunk{append([]byte(nil), data...)}
		return nil
	})
	coalesce := rng.Intn(3) == 0
	rcv = grpctunnel.VerifNewReceiver(func(n uint32) {
		r.mu.Lock()
		// the item left the queue and its credit enters the wire in one step
		r.queued -= int64(n)
		r.credFly += int64(n)
		r.ev("credit")
		r.check("credit")
		r.mu.Unlock()
		credQ <- n
	}, window)

	// wire: data one way, credit the other, each FIFO, with PRNG delivery delays
	wg.Add(2)
	go func() {
		defer wg.Done()
		pr := rand.New(rand.NewSource(seeds[1]))
		for {
			select {
			case ch := <-dataQ:
				if parkMax > 0 {
					time.Sleep(time.Duration(pr.Intn(parkMax+1)) * time.Nanosecond)
				}
				r.mu.Lock()
				r.dataFly -= int64(len(ch.b))
				r.queued += int64(len(ch.b))
				r.mu.Unlock()
				if err := rcv.Accept(ch.b); err != nil {
					r.mu.Lock()
					if !r.cancelled {
						r.viol = append(r.viol, "receiver rejected a chunk from a conforming sender: "+err.Error())
					}
					r.mu.Unlock()
				}
			case <-quit:
				return
			}
		}
	}()
	go func() {
		defer wg.Done()
		pr := rand.New(rand.NewSource(seeds[2]))
		for {
			select {
			case n := <-credQ:
				if parkMax > 0 {
					time.Sleep(time.Duration(pr.Intn(parkMax+1)) * time.Nanosecond)
				}
				if coalesce {
					// a peer may return credit in larger portions than it took data in (the protocol
					// puts no bound on one update): whatever else is ready is added to this update
				drain:
					for {
						select {
						case m := <-credQ:
							n += m
						default:
							break drain
						}
					}
					if n > 16384 {
						atomic.AddInt64(&fcCoalesced, 1)
					}
				}
				r.mu.Lock()
				r.credFly -= int64(n)
				r.sWin += int64(n)
				r.mu.Unlock()
				snd.UpdateWindow(n)
			case <-quit:
				return
			}
		}
	}()
	// consumer
	consumerPace := rng.Intn(3) // 0 eager, 1 random naps, 2 stops for a while mid-way
	total := int64(0)
	for _, s := range sizes {
		total += int64(s)
	}
	stopAfter := int64(-1)
	if consumerPace == 2 && total > 0 {
		stopAfter = rng.Int63n(total + 1)
	}
	resume := make(chan struct{})
	wg.Add(1)
	go func() {
		defer wg.Done()
		pr := rand.New(rand.NewSource(seeds[3]))
		stopped := false
		for {
			b, ok := rcv.Dequeue()
			if !ok {
				return
			}
			r.mu.Lock()
			r.consumed += int64(len(b))
			cons := r.consumed
			r.mu.Unlock()
			if consumerPace == 1 && pr.Intn(2) == 0 {
				time.Sleep(time.Duration(pr.Intn(30)) * time.Nanosecond)
			}
			if stopAfter >= 0 && !stopped && cons >= stopAfter {
				stopped = true
				select {
				case <-resume:
				case <-quit:
					return
				}
			}
		}
	}()
	// producer
	sendDone := make(chan error, 1)
	wg.Add(1)
	go func() {
		defer wg.Done()
		var err error
		for _, s := range sizes {
			if err = snd.Send(make([]byte, s)); err != nil {
				break
			}
		}
		sendDone <- err
	}()

	// first quiescent point: advance far beyond the sum of all parks and naps
	// (<= 30ns each, a few thousand steps), so nothing runnable and no timer is left
	synctest.Wait()
	time.Sleep(10 * time.Millisecond)
	synctest.Wait()
	finished := false
	var sendErr error
	select {
	case sendErr = <-sendDone:
		finished = true
	default:
	}
	r.mu.Lock()
	if !finished && !r.cancelled {
		// progress oracle: blocked only while the consumer has left a full window unread
		if stopAfter < 0 {
			r.viol = append(r.viol, fmt.Sprintf("sender stranded with an eager/napping consumer: window model %d, queued %d, data in flight %d, credit in flight %d (sent %d of %d)", r.sWin, r.queued, r.dataFly, r.credFly, r.sent, total))
		} else if r.sWin != 0 || r.credFly != 0 || r.dataFly != 0 || r.queued != r.window {
			r.viol = append(r.viol, fmt.Sprintf("sender blocked although not a full window is unread: window model %d, queued %d, data in flight %d, credit in flight %d", r.sWin, r.queued, r.dataFly, r.credFly))
		}
	}
	r.mu.Unlock()
	if !finished {
		w.Stat("fccore_sender_observed_blocked", 1)
	}
	close(resume)
	synctest.Wait()
	time.Sleep(10 * time.Millisecond)
	synctest.Wait()
	if !finished {
		select {
		case sendErr = <-sendDone:
			finished = true
		default:
		}
	}
	r.mu.Lock()
	if !finished {
		r.viol = append(r.viol, fmt.Sprintf("sender stranded after the consumer resumed: window model %d, queued %d, data in flight %d, credit in flight %d (sent %d of %d, cancelled %v)", r.sWin, r.queued, r.dataFly, r.credFly, r.sent, total, r.cancelled))
	} else if !r.cancelled {
		if sendErr != nil {
			r.viol = append(r.viol, "send failed without cancellation: "+sendErr.Error())
		}
		if r.sent != total || r.consumed != total {
			r.viol = append(r.viol, fmt.Sprintf("volume mismatch: sent %d consumed %d of %d", r.sent, r.consumed, total))
		}
		if r.sWin != r.window || r.queued != 0 || r.dataFly != 0 || r.credFly != 0 {
			r.viol = append(r.viol, fmt.Sprintf("window not restored after everything was read: window model %d (initial %d), queued %d, in flight %d/%d", r.sWin, r.window, r.queued, r.dataFly, r.credFly))
		}
		// the real sender must agree with the model: a further full window can be sent without blocking
		w.Stat("fccore_completed", 1)
	}
	viol := r.viol
	sig := strings.Join(r.order, ",")
	w.Stats["fccore_waits_entered"] += r.waitsEntered
	w.Stats["fccore_update_between_load_and_wait"] += r.updBetweenLoadAndWait
	if r.cancelled {
		w.Stats["fccore_cancelled_runs"]++
	}
	r.mu.Unlock()
	if finished && !r.cancelled {
		// (iii) restored window: a full window goes out without blocking
		done2 := make(chan error, 1)
		go func() { done2 <- snd.Send(make([]byte, window)) }()
		synctest.Wait()
		time.Sleep(10 * time.Millisecond)
		synctest.Wait()
		select {
		case <-done2:
		default:
			viol = append(viol, "a further full window could not be sent after everything was read")
			cancel()
			<-done2
		}
	}
	cancel()
	rcv.Cancel()
	close(quit)
	wg.Wait()
	for _, v := range viol {
		key := "fccore:" + strings.SplitN(v, ":", 2)[0]
		if len(key) > 60 {
			key = key[:60]
		}
		w.Violate("C05", key, "flow-control core run (window %d, sizes %v, park<=%dns, consumer pace %d, stopAfter %d): %s\n  step order: %s", window, sizes, parkMax, consumerPace, stopAfter, v, sig)
	}
	return sig
}

// famFCProgress: whole tunnel, stepped reader.
func famFCProgress(w *World, c *Case, rng *rand.Rand) {
	if err := w.Open(nil); err != nil {
		w.Violate("C11", "open-failed", "open: %v", err)
		w.Finish()
		return
	}
	respDir := c.p("resp", 0) == 1
	nmsg := 6 + rng.Intn(10)
	var sizes []int
	vol := 0
	for i := 0; i < nmsg; i++ {
		s := []int{70000, 65536, 65531, 16384, 100000, 1, 0, 200000, 32768, 65537}[rng.Intn(10)]
		sizes = append(sizes, s)
		vol += s
	}
	spec := &RPCSpec{ID: "flow"}
	var sender, reader []Op
	for _, s := range sizes {
		sender = append(sender, Op{K: "send", N: s})
	}
	for i := range sizes {
		reader = append(reader, Op{K: "sync", Name: fmt.Sprintf("step%d", i)}, Op{K: "recv"})
	}
	if respDir {
		spec.Method = "ServerStream"
		spec.Client = append([]Op{{K: "open"}, {K: "send", N: 1}, {K: "close"}}, append(reader, Op{K: "recvall"})...)
		spec.Handler = append([]Op{{K: "recv"}}, append(sender, Op{K: "ret"})...)
	} else {
		spec.Method = "ClientStream"
		spec.Client = append([]Op{{K: "open"}}, append(sender, Op{K: "close"}, Op{K: "recvall"})...)
		spec.Handler = append(reader, Op{K: "recvall"}, Op{K: "send", N: 3}, Op{K: "ret"})
	}
	// a live bystander that must keep completing round trips while the flow stream is stalled
	w.Env.StartRPC(context.Background(), w.Ch, spec)
	// optionally a second stream whose sender parks on a window its peer never reads and whose caller
	// gives up while it is parked: the parked Send must return, and nothing else may be held up
	var cancelStall context.CancelFunc
	if c.p("cstall", 0) == 1 && w.Cfg.RevisionOne() {
		var sctx context.Context
		sctx, cancelStall = context.WithCancel(context.Background())
		st := &RPCSpec{ID: "stall"}
		if respDir {
			st.Method = "ServerStream"
			st.Client = []Op{{K: "open"}, {K: "send", N: 1}, {K: "close"}, {K: "sync", Name: "never"}, {K: "recvall"}}
			st.Handler = []Op{{K: "recv"}, {K: "send", N: 40000}, {K: "send", N: 40000}, {K: "send", N: 40000}, {K: "ret"}}
		} else {
			st.Method = "ClientStream"
			st.Client = []Op{{K: "open"}, {K: "send", N: 40000}, {K: "send", N: 40000}, {K: "send", N: 40000}, {K: "close"}, {K: "recvall"}}
			st.Handler = []Op{{K: "sync", Name: "never"}, {K: "recvall"}, {K: "send", N: 3}, {K: "ret"}}
		}
		w.Env.StartRPC(sctx, w.Ch, st)
	}
	w.Advance(time.Millisecond)
	senderSide, readerSide := "client", "handler"
	if respDir {
		senderSide, readerSide = "handler", "client"
	}
	for i := 0; i <= len(sizes); i++ {
		// quiescent point: judge
		w.Wait()
		sendOpen, recvOpen := false, false
		for _, r := range w.Env.Log.OpenOps() {
			if r.RPC != "flow" {
				continue
			}
			if r.Side == senderSide && r.K == "send" {
				sendOpen = true
			}
			if r.Side == readerSide && r.K == "recv" {
				recvOpen = true
			}
		}
		if sendOpen && recvOpen {
			w.Violate("C05", "send-and-recv-both-blocked", "step %d: the application's Send and the peer application's Recv on the same stream are both blocked at quiescence (%s)", i, w.Cfg)
		}
		if !strings.HasPrefix(w.Cfg.Dir, "nested") {
			if l, id, ok := w.Wire.StreamByTag("flow"); ok {
				req, resp, _ := w.Window.StreamTotals(l, id)
				d := req
				if respDir {
					d = resp
				}
				// C06: credit granted never exceeds what the application actually consumed
				// (no Recv is open at this quiescent point: the reader waits at a sync point)
				if !recvOpen {
					consumed := int64(0)
					for _, r := range w.Env.Log.Records() {
						if r.RPC == "flow" && r.Side == readerSide && r.K == "recv" && r.RetSeq != 0 && r.Err == "" {
							consumed += int64(len(wrapBytes(make([]byte, r.GotSize))))
						}
					}
					w.Stat("credit_vs_consumed_checks", 1)
					if d.creditEmitted > consumed {
						w.Violate("C06", "credit-exceeds-consumed", "step %d: %d bytes of credit were granted but the application has consumed only %d bytes of messages (%s)", i, d.creditEmitted, consumed, w.Cfg)
					}
				}
				if sendOpen {
					w.Stat("progress_blocked_points", 1)
					if d.dataEmitted-d.creditEmitted != d.window {
						w.Violate("C05", "sender-blocked-without-full-window-unread", "step %d: Send is blocked but only %d un-credited bytes are outstanding (window %d; emitted %d, credit emitted %d)", i, d.dataEmitted-d.creditEmitted, d.window, d.dataEmitted, d.creditEmitted)
					}
				} else {
					w.Stat("progress_unblocked_points", 1)
				}
			}
		} else if sendOpen {
			w.Stat("progress_blocked_points", 1)
		}
		if i == 2 && cancelStall != nil {
			parked := false
			for _, r := range w.Env.Log.OpenOps() {
				parked = parked || (r.RPC == "stall" && r.Side == senderSide && r.K == "send")
			}
			cancelStall()
			w.Advance(10 * time.Millisecond)
			if parked {
				w.Stat("progress_parked_sender_cancelled", 1)
			}
			for _, r := range w.Env.Log.OpenOps() {
				if r.RPC == "stall" && r.K == "send" {
					w.Violate("C05", "parked-send-not-released-by-cancellation", "the %s's Send on a stream whose window is exhausted is still blocked after the RPC was cancelled (%s)", r.Side, w.Cfg)
				}
			}
		}
		if i < len(sizes) {
			w.Env.Signal(fmt.Sprintf("step%d", i))
			// a bystander round trip must complete while the flow stream may be stalled
			if i%3 == 0 {
				by := &RPCSpec{ID: fmt.Sprintf("rt%d", i), Method: "Unary", Client: []Op{{K: "invoke", N: 30000}}, Handler: []Op{{K: "recv"}, {K: "send", N: 30000}, {K: "ret"}}}
				w.Env.StartRPC(context.Background(), w.Ch, by)
				w.Wait()
				for _, r := range w.Env.Log.OpenOps() {
					if r.RPC == by.ID {
						w.Violate("C05", "live-rpc-stuck-behind-stalled-stream", "step %d: a unary round trip did not complete while the flow stream was stalled (%s)", i, w.Cfg)
					}
				}
			}
		}
	}
	if cancelStall != nil {
		w.Env.Signal("never")
	}
	w.Advance(time.Second)
	for _, r := range w.Env.Log.OpenOps() {
		w.Violate("C05", "stream-did-not-complete", "after the reader read everything, %s op %s[%d] of %s is still blocked (%s, volume %d)", r.Side, r.K, r.Idx, r.RPC, w.Cfg, vol)
	}
	// (iii) credit fully returned
	if !strings.HasPrefix(w.Cfg.Dir, "nested") {
		if l, id, ok := w.Wire.StreamByTag("flow"); ok {
			req, resp, _ := w.Window.StreamTotals(l, id)
			d := req
			if respDir {
				d = resp
			}
			w.Stat("progress_volume_bytes", int(d.dataEmitted))
			// credit is suppressed once the stream is done / half-closed, so only the bound is universal
			if d.creditEmitted > d.dataEmitted {
				w.Violate("C05", "credit-exceeds-data", "credit emitted %d > data emitted %d", d.creditEmitted, d.dataEmitted)
			}
		}
	}
	w.CheckDelivery()
	w.Stat("progress_runs", 1)
	w.Finish()
}
