package h

// methodnames: an RPC runs exactly the handler its method name names, or is
// rejected - never a different handler (C08: "at most one invocation of exactly
// the named handler or one rejection"; C09 for the hostile spellings). Near
// misses of a registered name - extra or missing slashes, trailing slash, other
// case, surrounding blanks, NUL - name nothing that is registered.

import (
	"context"
	"fmt"
	"math/rand"
	"time"
)

var nearMissNames = []string{
	"//verif.Svc/Unary", "///verif.Svc/Unary", "/verif.Svc//Unary", "/verif.Svc/Unary/", "/verif.Svc/unary", "/Verif.Svc/Unary",
	" /verif.Svc/Unary", "/verif.Svc/Unary ", "/verif.Svc/Unary\x00", "/verif.Svc/", "/verif.Svc", "verif.Svc//Unary", "/verif.Svc/Unary/Unary",
	"/verif.Svc/Bidi/", "//verif.Svc/Bidi", "/verif.svc/Bidi",
}

func init() {
	families["methodnames"] = famMethodNames
	add := func(id string, reps, thoroughReps int) {
		prev := listers[id]
		listers[id] = func(tier string, seed int64) []Case {
			out := prev(tier, seed)
			rng := rand.New(rand.NewSource(seed*4001 + 808))
			n := reps
			if tier == "thorough" {
				n = thoroughReps
			}
			for r := 0; r < n; r++ {
				for _, dir := range allDirs {
					out = append(out, Case{Family: "methodnames", Seed: rng.Int63(), Cfg: WorldCfg{Dir: dir}})
				}
			}
			return out
		}
	}
	add("C08", 1, 20)
	add("C09", 1, 20)
}

func famMethodNames(w *World, c *Case, rng *rand.Rand) {
	if err := w.Open(nil); err != nil {
		w.Violate("C11", "open-failed", "opening the tunnel failed in configuration %s: %v", w.Cfg, err)
		w.Finish()
		return
	}
	// exact names, with and without the leading slash, do run their handler
	var specs []*RPCSpec
	for i, name := range []string{"/verif.Svc/Unary", "verif.Svc/Unary"} {
		s := &RPCSpec{ID: fmt.Sprintf("ok%d", i), Method: "Unary", RawMethod: name, Client: []Op{{K: "invoke", N: 10}}, Handler: []Op{{K: "recv"}, {K: "send", N: 5}, {K: "ret"}}}
		specs = append(specs, s)
		w.Env.StartRPC(context.Background(), w.Ch, s)
	}
	for i, name := range nearMissNames {
		s := &RPCSpec{ID: fmt.Sprintf("nm%d", i), Method: "Unary", RawMethod: name, Client: []Op{{K: "invoke", N: 10}}, Handler: []Op{{K: "recv"}, {K: "send", N: 5}, {K: "ret"}}}
		if i%3 == 2 {
			s.Method = "Bidi"
			s.Client = []Op{{K: "open"}, {K: "send", N: 10}, {K: "close"}, {K: "recvall"}}
		}
		specs = append(specs, s)
		w.Env.StartRPC(context.Background(), w.Ch, s)
		if rng.Intn(2) == 0 {
			w.Wait()
		}
	}
	w.Advance(time.Second)
	invoked := map[string]string{}
	w.Env.Log.mu.Lock()
	for _, inv := range w.Env.Log.Invocations {
		invoked[inv.RPC] = inv.Method
	}
	w.Env.Log.mu.Unlock()
	views := buildViews(w.Env)
	for _, s := range specs {
		t := clientTerminal(views[s.ID])
		if t == nil {
			w.Violate("C04", "op-hangs:client:invoke", "methodnames: the call to %q has not returned", s.RawMethod)
			continue
		}
		if s.ID[:2] == "ok" {
			if t.Err != "" || invoked[s.ID] == "" {
				w.Violate("C08", "named-handler-not-invoked", "methodnames: the call to %q ended with %q (handler invoked: %v)", s.RawMethod, t.Err, invoked[s.ID] != "")
			}
			continue
		}
		w.Stat("methodnames_near_misses", 1)
		if m, ok := invoked[s.ID]; ok {
			w.Violate("C08", "unregistered-name-ran-a-handler", "methodnames: the call to %q, which names nothing registered, ran the handler of %q", s.RawMethod, m)
			w.Violate("C09", "unregistered-name-ran-a-handler", "methodnames: the call to %q, which names nothing registered, ran the handler of %q", s.RawMethod, m)
		}
		if (t.K == "invoke" && t.Err == "") || (t.K == "recv" && t.EOF) {
			w.Violate("C08", "unregistered-name-succeeded", "methodnames: the call to %q, which names nothing registered, succeeded", s.RawMethod)
		}
	}
	select {
	case <-w.TCh.Done():
		w.Violate("C03", "tunnel-ended-by-rpc", "methodnames: the tunnel ended: %v", w.TCh.Err())
	default:
	}
	w.CheckTables(w.TCh, 0, 0, true, "after the method name probes")
	w.Stat("methodnames_runs", 1)
	w.Finish()
}
