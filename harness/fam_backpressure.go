package h

// backpressure (engine E2, free-running): a bounded carrier that fills up. One
// RPC's responses are left unread, so the server-to-client direction stalls
// (without flow control also the caller's receive loop); meanwhile another RPC
// is cancelled - the serving side's receive loop has to finish that stream -
// and a third RPC keeps sending requests, after which the application starts
// reading. The serving side's receive loop must go on consuming requests while
// the other direction is stalled, or the application's "send, then read" order
// is a deadlock (C15; C03 with flow control).

import (
	"context"
	"fmt"
	"math/rand"
	"time"
)

func init() {
	families["backpressure"] = famBackpressure
	freeFamilies["backpressure"] = true
	// (listed by C15 and C04: see fam_zlate.go)
}

func backpressureCases(tier string, seed int64) []Case {
	var out []Case
	rng := rand.New(rand.NewSource(seed*8111 + 1515))
	n := 16
	if tier == "thorough" {
		n = 400
	}
	for i := 0; i < n; i++ {
		cfg := WorldCfg{Dir: []string{"forward", "reverse"}[i%2], CapFrames: []int{1, 2, 4, 8}[(i/2)%4]}
		if (i/8)%2 == 0 {
			cfg.ClientNoFC, cfg.ServerNoFC = true, true
		}
		how := (i / 16) % 3
		if cfg.ClientNoFC && (i/2)%2 == 1 {
			how = 3 // many RPCs refused after a graceful shutdown, while the responses back up
		}
		out = append(out, Case{Family: "backpressure", Seed: rng.Int63(), Cfg: cfg, P: map[string]int{"how": how}})
	}
	return out
}

func famBackpressure(w *World, c *Case, rng *rand.Rand) {
	if err := w.Open(nil); err != nil {
		w.Violate("C11", "open-failed", "opening the tunnel failed in configuration %s: %v", w.Cfg, err)
		w.Finish()
		return
	}
	how := c.p("how", 0)
	w.SigExtra = fmt.Sprintf("cap%d/how%d", w.Cfg.CapFrames, how)
	// RPC 1: responses nobody reads until "go"
	var flood []Op
	for i := 0; i < 40; i++ {
		flood = append(flood, Op{K: "send", N: 1500})
	}
	r1 := &RPCSpec{ID: "flood", Method: "ServerStream", Client: []Op{{K: "open"}, {K: "send", N: 10}, {K: "close"}, {K: "sync", Name: "go"}, {K: "recvall"}},
		Handler: append(append([]Op{{K: "recv"}, {K: "signal", Name: "flooding"}}, flood...), Op{K: "ret"})}
	// RPC 2: ended from the serving side's receive loop (cancel), a deadline, or by its handler
	r2 := &RPCSpec{ID: "ended", Method: "Bidi", Client: []Op{{K: "open"}, {K: "send", N: 100}, {K: "sync", Name: "r2-go"}, {K: "cancel"}, {K: "recvall"}},
		Handler: []Op{{K: "recv"}, {K: "signal", Name: "r2-up"}, {K: "ctxwait"}, {K: "ret"}}}
	switch how {
	case 1:
		r2.Client = []Op{{K: "open"}, {K: "send", N: 100}, {K: "sync", Name: "r2-go"}, {K: "close"}, {K: "recvall"}}
		r2.Handler = []Op{{K: "recv"}, {K: "signal", Name: "r2-up"}, {K: "recvall"}, {K: "send", N: 5}, {K: "ret"}}
	case 2:
		r2.GrpcTimeout = "30m"
		r2.Client = []Op{{K: "open"}, {K: "send", N: 100}, {K: "sync", Name: "r2-go"}, {K: "recvall"}}
	}
	// RPC 3: keeps sending; the application reads only after these sends have returned
	var sends []Op
	for i := 0; i < 30; i++ {
		sends = append(sends, Op{K: "send", N: 1200})
	}
	r3 := &RPCSpec{ID: "sender", Method: "ClientStream", Client: append(append([]Op{{K: "open"}}, sends...), Op{K: "signal", Name: "go"}, Op{K: "close"}, Op{K: "recvall"}),
		Handler: []Op{{K: "recvall"}, {K: "send", N: 3}, {K: "ret"}}}
	stuck := func(what string) {
		for _, r := range w.Env.Log.OpenOps() {
			w.Violate("C15", "deadlock:"+r.Side+":"+r.K, "backpressure %s (%s): %s; %s %s[%d] of rpc %s has not returned and nothing has happened for 150 polls", w.SigExtra, w.Cfg, what, r.Side, r.K, r.Idx, r.RPC)
		}
		w.Violate("C15", "scenario-stuck", "backpressure %s (%s): %s: no progress", w.SigExtra, w.Cfg, what)
		if how == 3 {
			w.Violate("C10", "refusals-stall-the-tunnel", "backpressure %s (%s): after graceful shutdown the calls started afterwards are neither refused nor even read, and the call in flight cannot finish: %s", w.SigExtra, w.Cfg, what)
		}
	}
	if how == 3 {
		// graceful shutdown with the flood in flight, then a burst of new calls (each only opens and
		// sends: no reply is needed for that) before the application starts reading. Only liveness is
		// judged here: every refusal costs the serving side a frame on the stalled direction, and its
		// receive loop must nevertheless go on consuming what the caller writes.
		w.Env.StartRPC(context.Background(), w.Ch, r1)
		if !w.awaitFree(w.Env.syncChan("flooding")) {
			stuck("start")
			w.Env.Signal("go")
			w.Finish()
			return
		}
		time.Sleep(10 * time.Millisecond)
		if w.Cfg.Dir == "forward" {
			w.Handler.InitiateShutdown()
		} else {
			go w.RevSrvs[0].GracefulStop()
			time.Sleep(5 * time.Millisecond)
		}
		var burst []*RPCSpec
		for i := 0; i < 25; i++ {
			b := &RPCSpec{ID: fmt.Sprintf("late%d", i), Method: "Bidi", Client: []Op{{K: "open"}, {K: "send", N: 1200}, {K: "signal", Name: fmt.Sprintf("sent%d", i)}, {K: "sync", Name: "go"}, {K: "close"}, {K: "recvall"}},
				Handler: []Op{{K: "recvall"}, {K: "send", N: 5}, {K: "ret"}}}
			burst = append(burst, b)
			w.Env.StartRPC(context.Background(), w.Ch, b)
			if !w.awaitFree(w.Env.syncChan(fmt.Sprintf("sent%d", i))) {
				stuck(fmt.Sprintf("call %d started after the shutdown could not even send its request", i))
				w.Env.Signal("go")
				w.Stat("backpressure_runs", 1)
				w.Finish()
				return
			}
		}
		w.Env.Signal("go")
		for _, s := range append(burst, r1) {
			if !w.awaitFree(s.done) {
				stuck("waiting for rpc " + s.ID)
				break
			}
		}
		w.Stat("backpressure_runs", 1)
		w.Stat("backpressure_refusal_bursts", 1)
		w.Finish()
		return
	}
	w.Env.StartRPC(context.Background(), w.Ch, r1)
	w.Env.StartRPC(context.Background(), w.Ch, r2)
	if !w.awaitFree(w.Env.syncChan("flooding")) || !w.awaitFree(w.Env.syncChan("r2-up")) {
		stuck("start")
		w.Env.Signal("go")
		w.Finish()
		return
	}
	time.Sleep(10 * time.Millisecond) // the flood fills the carrier (and parks whatever it parks)
	w.Env.Signal("r2-go")
	time.Sleep(5 * time.Millisecond)
	w.Env.StartRPC(context.Background(), w.Ch, r3)
	ok := true
	for _, s := range []*RPCSpec{r3, r1, r2} {
		if !w.awaitFree(s.done) {
			stuck("waiting for rpc " + s.ID)
			ok = false
			break
		}
	}
	if !ok {
		w.Env.Signal("go") // let the world be torn down
	} else {
		w.CheckDelivery()
	}
	w.Stat("backpressure_runs", 1)
	w.Finish()
}
