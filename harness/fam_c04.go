package h

// C04: termination fault enumeration. A base workload puts RPCs of all four
// shapes into every phase; the carrier is gated so that exactly k frames have
// been delivered when the termination cause strikes; then the clock advances
// an hour and the lifecycle oracle judges both ends.

import (
	"sync/atomic"
	"context"
	"fmt"
	"math/rand"
	"time"

	"google.golang.org/grpc/codes"
	"google.golang.org/grpc/status"
	"google.golang.org/protobuf/types/known/wrapperspb"
)

// phaseSpecs returns the "every phase" workload.
var sloopPhase = true

func phaseSpecs(fc bool) []*RPCSpec {
	specs := []*RPCSpec{
		// completed before the fault
		{ID: "done", Method: "Unary", Client: []Op{{K: "invoke", N: 100}}, Handler: []Op{{K: "recv"}, {K: "send", N: 50}, {K: "ret"}}},
		// caller blocked in Recv
		{ID: "crecv", Method: "ServerStream", Client: []Op{{K: "open"}, {K: "send", N: 10}, {K: "close"}, {K: "recvall"}},
			Handler: []Op{{K: "recv"}, {K: "send", N: 20000}, {K: "ctxwait"}, {K: "send", N: 5}, {K: "ret", Code: codes.Aborted, Msg: "after ctx"}}},
		// handler blocked in Recv
		{ID: "hrecv", Method: "Bidi", Client: []Op{{K: "open"}, {K: "send", N: 17000}, {K: "sync", Name: "never"}, {K: "recvall"}},
			Handler: []Op{{K: "recv"}, {K: "recvall"}, {K: "ctxwait"}, {K: "ret"}}},
		// caller blocked in Header()
		{ID: "chdr", Method: "Bidi", Client: []Op{{K: "open"}, {K: "header"}, {K: "recvall"}},
			Handler: []Op{{K: "ctxwait"}, {K: "ret"}}},
		// unary awaiting its handler
		{ID: "unary", Method: "Unary", Client: []Op{{K: "invoke", N: 33}}, Handler: []Op{{K: "recv"}, {K: "ctxwait"}, {K: "ret", Code: codes.Aborted, Msg: "after ctx"}}},
		// half-closed, awaiting trailers
		{ID: "half", Method: "ClientStream", Client: []Op{{K: "open"}, {K: "send", N: 40000}, {K: "close"}, {K: "recvall"}},
			Handler: []Op{{K: "recvall"}, {K: "ctxwait"}, {K: "recv"}, {K: "ret", Code: codes.Aborted, Msg: "after ctx"}}},
		// before headers: nothing sent either way after the new_stream
		{ID: "idle", Method: "Bidi", Client: []Op{{K: "open"}, {K: "sync", Name: "never"}, {K: "recvall"}},
			Handler: []Op{{K: "ctxwait"}, {K: "send", N: 3}, {K: "ret"}}},
	}
	if !fc {
		// without flow control: responses nobody reads park the caller's receive loop itself (started
		// last, so that the other calls have reached their phases); only the end of the tunnel frees it
		specs = append(specs, &RPCSpec{ID: "cloop", Method: "ServerStream", Client: []Op{{K: "open"}, {K: "send", N: 10}, {K: "close"}, {K: "sync", Name: "never"}, {K: "recvall"}},
			Handler: []Op{{K: "recv"}, {K: "send", N: 100}, {K: "send", N: 200}, {K: "send", N: 300}, {K: "send", N: 400}, {K: "ctxwait"}, {K: "ret"}}})
	}
	if !fc && sloopPhase {
		// the mirror image: requests the handler does not read park the SERVING side's receive loop
		specs = append(specs, &RPCSpec{ID: "sloop", Method: "ClientStream", Client: []Op{{K: "open"}, {K: "send", N: 100}, {K: "send", N: 200}, {K: "send", N: 300}, {K: "send", N: 400}, {K: "sync", Name: "never"}, {K: "close"}, {K: "recvall"}},
			Handler: []Op{{K: "ctxwait"}, {K: "recvall"}, {K: "ret"}}})
	}
	if fc {
		specs = append(specs,
			// handler blocked on the window, mid-message
			&RPCSpec{ID: "hwin", Method: "ServerStream", Client: []Op{{K: "open"}, {K: "send", N: 10}, {K: "close"}, {K: "sync", Name: "never"}, {K: "recvall"}},
				Handler: []Op{{K: "recv"}, {K: "send", N: 150000}, {K: "send", N: 10}, {K: "ctxwait"}, {K: "ret"}}},
			// caller blocked on the window, mid-message
			&RPCSpec{ID: "cwin", Method: "ClientStream", Client: []Op{{K: "open"}, {K: "send", N: 150000}, {K: "send", N: 10}, {K: "close"}, {K: "recvall"}},
				Handler: []Op{{K: "ctxwait"}, {K: "recv"}, {K: "ret"}}},
		)
	}
	return specs
}

var c04Causes = map[string][]string{
	"forward": {"close", "ctx-cancel", "ctx-deadline", "break", "reset", "fail-send-c2s", "fail-send-s2c"},
	"reverse": {"close", "ctx-cancel", "ctx-deadline", "break", "reset", "stop", "gracefulstop-then-stop", "fail-send-c2s", "fail-send-s2c"},
}

func init() {
	families["termnested"] = famTermNested
	families["termination"] = famTermination
	listers["C04"] = func(tier string, seed int64) []Case {
		var out []Case
		rng := rand.New(rand.NewSource(seed*6151 + 4))
		step := 3
		maxK := 72
		if tier == "thorough" {
			step = 1
		}
		reps := 1
		if tier == "thorough" {
			reps = 6 // same (cause, k), different PRNG choice of which direction's frames are delivered first
		}
		for r := 0; r < reps; r++ {
			for _, dir := range []string{"forward", "reverse"} {
				for _, fc := range []string{"on", "bothnofc"} {
					for ci, cause := range c04Causes[dir] {
						off := (ci + int(seed)) % step
						for k := off; k <= maxK; k += step {
							cfg := WorldCfg{Dir: dir}
							if fc != "on" {
								// revision zero comes about in several ways: either side or both disabled flow
								// control, or a peer that does not negotiate at all
								switch (ci + k/step + r) % 5 {
								case 0, 1:
									cfg.ClientNoFC, cfg.ServerNoFC = true, true
								case 2:
									cfg.ClientNoFC = true
								case 3:
									cfg.ServerNoFC = true
								case 4:
									cfg.StripReq, cfg.StripResp = true, true
								}
							}
							out = append(out, Case{Family: "termination", Seed: rng.Int63(), Cfg: cfg, P: map[string]int{"k": k}, S: map[string]string{"cause": cause}})
						}
					}
				}
			}
		}
		// nested tunnels: the outer (or the inner) tunnel ends while the inner one carries the every-phase workload
		nreps := 1
		if tier == "thorough" {
			nreps = 20
		}
		for r := 0; r < nreps; r++ {
			for _, dir := range []string{"nested-ff", "nested-rf", "nested-fr", "nested-rr"} {
				for _, cause := range []string{"inner-close", "outer-close", "root-cancel", "break", "outer-stop"} {
					for _, fc := range []bool{true, false} {
						cfg := WorldCfg{Dir: dir}
						if !fc {
							switch r % 3 {
							case 0:
								cfg.ClientNoFC, cfg.ServerNoFC = true, true
							case 1:
								cfg.ServerNoFC = true
							case 2:
								cfg.ClientNoFC = true
							}
						}
						out = append(out, Case{Family: "termnested", Seed: rng.Int63(), Cfg: cfg, P: map[string]int{"steps": r % 4}, S: map[string]string{"cause": cause}})
					}
				}
			}
		}
		return out
	}
}

// famTermNested: the every-phase workload runs on the inner tunnel of a nested
// topology; then the inner channel is closed, or the outer tunnel ends.
func famTermNested(w *World, c *Case, rng *rand.Rand) {
	if err := w.Open(nil); err != nil {
		w.Violate("C11", "open-failed", "open: %v", err)
		w.Finish()
		return
	}
	cause := c.s("cause", "outer-close")
	specs := phaseSpecs(w.Cfg.RevisionOne())
	for i, s := range specs {
		// some callers use a context that can never be cancelled: only the end of the tunnel ends their RPC
		s.NeverCancel = (i+c.p("steps", 0))%3 == 0
		w.Env.StartRPC(context.Background(), w.Ch, s)
		if i%2 == c.p("steps", 0)%2 {
			w.Wait()
		}
	}
	if c.p("steps", 0) > 1 {
		w.Advance(time.Millisecond)
	}
	tc := w.TCh
	clean := false
	switch cause {
	case "inner-close":
		tc.Close()
		clean = true
	case "outer-close":
		w.Outer.Close()
	case "root-cancel":
		w.RootCancel()
	case "break":
		w.Conn.Links()[0].Break()
	case "outer-stop":
		if len(w.RevSrvs) > 0 {
			go w.RevSrvs[0].Stop()
		} else {
			w.Outer.Close()
		}
	}
	w.Advance(time.Hour)
	w.Stat("termination_nested_runs", 1)
	wedged := parkedRev0Loop() // (see famTermination)
	if wedged != "" {
		w.Stat("termination_with_parked_rev0_receive_loop", 1)
		w.CollectSymptoms("C04", "tunnel-end-not-observed:"+cause+wedged)
	}
	select {
	case <-tc.Done():
	default:
		w.Violate("C04", "done-not-closed:"+cause, "nested %s, cause %s: the inner channel's Done() is not closed an hour later", w.Cfg.Dir, cause)
	}
	if err := tc.Err(); clean && err != nil {
		w.Violate("C04", "err-non-nil-after-clean-end:"+cause, "nested %s: Err() = %v after a local Close of the inner channel", w.Cfg.Dir, err)
	} else if !clean && err == nil && !(cause == "outer-stop" && w.Cfg.Dir == "nested-rf") {
		// (stopping the nested reverse server itself is a clean end of that tunnel)
		w.Violate("C04", "err-nil-after-abnormal-end:"+cause, "nested %s, cause %s: the inner channel's Err() is nil although its carrier was torn down under it", w.Cfg.Dir, cause)
	}
	if wedged != "" {
		for _, r := range w.Env.Log.OpenOps() {
			w.Violate("C04", "op-hangs:"+r.Side+":"+r.K, "nested %s, cause %s: %s op %s[%d] of rpc %s still blocked an hour later", w.Cfg.Dir, cause, r.Side, r.K, r.Idx, r.RPC)
		}
	}
	w.Env.Signal("never")
	w.Advance(time.Second)
	for _, r := range w.Env.Log.OpenOps() {
		if r.K == "ctxwait" {
			w.Violate("C04", "handler-ctx-not-cancelled:"+cause, "nested %s, cause %s: handler %s context was not cancelled", w.Cfg.Dir, cause, r.RPC)
		} else {
			w.Violate("C04", "op-hangs:"+r.Side+":"+r.K, "nested %s, cause %s: %s op %s[%d] of rpc %s still blocked an hour later", w.Cfg.Dir, cause, r.Side, r.K, r.Idx, r.RPC)
		}
	}
	w.CheckDelivery()
	t0 := w.VT()
	var resp wrapperspb.BytesValue
	errCh := make(chan error, 1)
	go func() {
		errCh <- w.Ch.Invoke(context.Background(), methodPath("Unary"), &wrapperspb.BytesValue{}, &resp)
	}()
	w.Wait()
	select {
	case err := <-errCh:
		if err == nil {
			w.Violate("C04", "rpc-on-dead-channel-succeeded", "nested %s, cause %s: an RPC started after the tunnel ended returned nil", w.Cfg.Dir, cause)
		}
		if w.VT() != t0 {
			w.Violate("C04", "rpc-on-dead-channel-delayed", "nested %s, cause %s: an RPC started after the tunnel ended took %v to fail", w.Cfg.Dir, cause, w.VT()-t0)
		}
	default:
		w.Violate("C04", "rpc-on-dead-channel-hangs", "nested %s, cause %s: an RPC started after the tunnel ended did not return", w.Cfg.Dir, cause)
		w.Advance(time.Hour)
	}
	w.Finish()
}

// openWithRoot opens the world; if deadline > 0 the opening context has that deadline.
func (w *World) openWithDeadline(deadline time.Duration) error {
	if deadline > 0 {
		w.RootCancel()
		w.RootCtx, w.RootCancel = context.WithTimeout(context.Background(), deadline)
	}
	return w.Open(nil)
}

func famTermination(w *World, c *Case, rng *rand.Rand) {
	cause := c.s("cause", "close")
	k := c.p("k", 0)
	dl := time.Duration(0)
	if cause == "ctx-deadline" {
		dl = 10 * time.Minute
	}
	if err := w.openWithDeadline(dl); err != nil {
		w.Violate("C11", "open-failed", "open: %v", err)
		w.Finish()
		return
	}
	fc := w.Cfg.RevisionOne()
	specs := phaseSpecs(fc)
	w.Conn.SetGated(true)
	for i, s := range specs {
		// some callers use a context that can never be cancelled: only the end of the tunnel ends their RPC
		s.NeverCancel = (i+k)%3 == 0
		w.Env.StartRPC(context.Background(), w.Ch, s)
	}
	// deliver exactly k frames (direction chosen by the seeded PRNG among those pending)
	delivered := 0
	link := w.Conn.Links()[0]
	for delivered < k {
		w.Wait()
		var cands []Dir
		for _, d := range []Dir{C2S, S2C} {
			tot, rel := link.Pending(d)
			if tot > rel {
				cands = append(cands, d)
			}
		}
		if len(cands) == 0 {
			break
		}
		link.Release(cands[rng.Intn(len(cands))], 1)
		delivered++
	}
	w.Wait()
	w.Stat("frames_before_fault", delivered)
	if delivered == k {
		w.Stat("fault_mid_traffic", 1)
	} else {
		w.Stat("fault_at_quiescence", 1)
	}
	// which RPCs had completed before the strike?
	completedBefore := map[string]bool{}
	for id, v := range buildViews(w.Env) {
		if t := clientTerminal(v); t != nil {
			completedBefore[id] = true
		}
	}
	tc := w.TCh
	// an application goroutine of the usual form "<-ch.Done(); return ch.Err()": what it reads at
	// the moment Done() closes must already tell a clean end from an abnormal one (the channel's own
	// shutdown is held briefly after its tear-down callback so that this goroutine gets there first)
	type firstLook struct{ err error }
	var first atomic.Pointer[firstLook]
	w.installYield(&YieldPlan{Parks: map[string][]time.Duration{"client.close.afterTearDown": {time.Millisecond, time.Millisecond, time.Millisecond}}})
	go func() {
		<-tc.Done()
		first.Store(&firstLook{tc.Err()})
	}()
	strikeVT := w.VT()
	var stopDone chan struct{}
	switch cause {
	case "close":
		tc.Close()
	case "ctx-cancel":
		w.RootCancel()
	case "ctx-deadline":
		time.Sleep(dl - w.VT() + time.Millisecond)
		strikeVT = w.VT()
	case "break":
		link.Break()
	case "reset":
		link.ResetByServer(status.New(codes.Unavailable, "reset by peer"))
	case "stop":
		stopDone = make(chan struct{})
		go func() { w.RevSrvs[0].Stop(); close(stopDone) }()
	case "gracefulstop-then-stop":
		// a graceful stop is pending (RPCs are in flight); then Stop, as the documentation recommends after a deadline
		go w.RevSrvs[0].GracefulStop()
		w.Wait()
		stopDone = make(chan struct{})
		go func() { w.RevSrvs[0].Stop(); close(stopDone) }()
	case "fail-send-c2s":
		link.FailSendAt(C2S, 1)
	case "fail-send-s2c":
		link.FailSendAt(S2C, 1)
	}
	w.Conn.SetGated(false)
	link.ReleaseAll()
	w.Wait()
	if cause == "fail-send-c2s" || cause == "fail-send-s2c" {
		// provoke a send in both directions so that the fault fires: a fresh RPC
		probe := &RPCSpec{ID: "provoke", Method: "Unary", Client: []Op{{K: "invoke", N: 1}}, Handler: []Op{{K: "recv"}, {K: "send", N: 1}, {K: "ret"}}}
		w.Env.StartRPC(context.Background(), w.Ch, probe)
		w.Wait()
		if done, _ := link.ClientDone(); !done {
			// nothing was sent in that direction: break explicitly so the case still decides something
			link.Break()
		}
	}
	w.Advance(time.Hour)
	_ = strikeVT

	// ---- lifecycle oracle ----
	w.Stat("termination_runs", 1)
	// Known finding D20 is keyed by what is observed, not by the configuration: a receive loop is,
	// at this very moment, parked handing a frame to a revision-zero stream whose application does
	// not read, so the in-band end of the carrier cannot be observed behind it. Everything the
	// lifecycle oracle finds in that state is one finding, recorded under one key per cause and
	// parked side; any other reason for the same symptoms keeps the plain keys.
	wedged := parkedRev0Loop()
	if wedged != "" {
		w.Stat("termination_with_parked_rev0_receive_loop", 1)
		w.CollectSymptoms("C04", "tunnel-end-not-observed:"+cause+wedged)
	}
	select {
	case <-tc.Done():
	default:
		w.Violate("C04", "done-not-closed:"+cause, "cause %s at frame %d: the channel's Done() is not closed an hour later", cause, k)
	}
	err1 := tc.Err()
	clean := cause == "close" || cause == "stop" || cause == "gracefulstop-then-stop"
	if fl := first.Load(); fl != nil {
		w.Stat("termination_err_read_as_done_closes", 1)
		if !clean && fl.err == nil {
			w.Violate("C04", "err-nil-when-done-closes:"+cause, "cause %s at frame %d (%s): Err() read by a goroutine woken by Done() was nil, an hour later it is %v", cause, k, w.Cfg.Dir, err1)
		}
		if clean && fl.err != nil && err1 == nil {
			w.Violate("C04", "err-flipped", "cause %s at frame %d (%s): Err() read by a goroutine woken by Done() was %v, an hour later it is nil", cause, k, w.Cfg.Dir, fl.err)
		}
	}
	if clean && err1 != nil {
		w.Violate("C04", "err-non-nil-after-clean-end:"+cause, "cause %s at frame %d (%s): Err() = %v after a clean end", cause, k, w.Cfg.Dir, err1)
	}
	if !clean && err1 == nil {
		w.Violate("C04", "err-nil-after-abnormal-end:"+cause, "cause %s at frame %d (%s): Err() is nil after an abnormal end", cause, k, w.Cfg.Dir)
	}
	// serving call
	sErr, sReturned := w.carrierServerResultFor()
	if !sReturned {
		w.Violate("C04", "serving-call-not-returned:"+cause, "cause %s at frame %d (%s): the serving call has not returned", cause, k, w.Cfg.Dir)
	} else {
		// a nil result after a clean end is documented for ReverseTunnelServer.Serve only;
		// the forward serving call is a gRPC handler whose status the property does not pin
		if clean && sErr != "" && w.Cfg.Dir == "reverse" {
			w.Violate("C04", "serving-call-error-after-clean-end:"+cause, "cause %s at frame %d (%s): serving call returned %q after a clean end", cause, k, w.Cfg.Dir, sErr)
		}
		if !clean && sErr == "" {
			w.Violate("C04", "serving-call-nil-after-abnormal-end:"+cause, "cause %s at frame %d (%s): serving call returned nil after an abnormal end", cause, k, w.Cfg.Dir)
		}
	}
	if stopDone != nil {
		select {
		case <-stopDone:
		default:
			w.Violate("C04", "stop-not-returned", "Stop() has not returned an hour after it was called")
		}
	}
	// Every library call that was blocked when the tunnel ended has returned by now - judged before
	// the scripts' own waits are released, because a caller that starts reading again can free a
	// parked receive loop and so finish what the end of the tunnel should have finished.
	for _, r := range w.Env.Log.OpenOps() {
		if r.K == "ctxwait" {
			w.Violate("C04", "handler-ctx-not-cancelled:"+cause, "cause %s at frame %d: handler %s context was not cancelled", cause, k, r.RPC)
		} else {
			w.Violate("C04", "op-hangs:"+r.Side+":"+r.K, "cause %s at frame %d (%s): %s op %s[%d] of rpc %s still blocked an hour later (before the scripts' own waits were released)", cause, k, w.Cfg, r.Side, r.K, r.Idx, r.RPC)
		}
	}
	// every operation returned; every RPC not completed before is non-OK
	w.Env.Signal("never")
	w.Advance(time.Second)
	for _, r := range w.Env.Log.OpenOps() {
		if r.K == "ctxwait" {
			w.Violate("C04", "handler-ctx-not-cancelled:"+cause, "cause %s at frame %d: handler %s context was not cancelled", cause, k, r.RPC)
		} else {
			w.Violate("C04", "op-hangs:"+r.Side+":"+r.K, "cause %s at frame %d (%s): %s op %s[%d] of rpc %s still blocked an hour later", cause, k, w.Cfg, r.Side, r.K, r.Idx, r.RPC)
		}
	}
	for id, v := range buildViews(w.Env) {
		if v.spec == nil || id == "provoke" {
			continue
		}
		t := clientTerminal(v)
		if t == nil {
			continue
		}
		w.Stat("terminal_results_checked", 1)
		ok := (t.K == "invoke" && t.Err == "") || (t.K == "recv" && t.EOF)
		if ok && !completedBefore[id] && id != "done" {
			// an RPC that was still in flight may only report success if its handler really returned OK
			if v.ret == nil || v.ret.Code != codes.OK {
				w.Violate("C04", "in-flight-rpc-reported-ok", "cause %s at frame %d: rpc %s was in flight when the tunnel ended but the caller was told it succeeded", cause, k, id)
			}
		}
	}
	w.CheckDelivery()
	// a fresh RPC on the dead channel fails immediately
	t0 := w.VT()
	var resp wrapperspb.BytesValue
	errCh := make(chan error, 1)
	go func() {
		errCh <- w.Ch.Invoke(context.Background(), methodPath("Unary"), &wrapperspb.BytesValue{}, &resp)
	}()
	w.Wait()
	select {
	case err := <-errCh:
		if err == nil {
			w.Violate("C04", "rpc-on-dead-channel-succeeded", "cause %s: an RPC started after the tunnel ended returned nil", cause)
		}
		if w.VT() != t0 {
			w.Violate("C04", "rpc-on-dead-channel-delayed", "cause %s: an RPC started after the tunnel ended took %v of virtual time to fail", cause, w.VT()-t0)
		}
	default:
		w.Violate("C04", "rpc-on-dead-channel-hangs", "cause %s at frame %d (%s): an RPC started after the tunnel ended did not return", cause, k, w.Cfg.Dir)
		w.Advance(time.Hour)
	}
	// Err() must not change afterwards
	if err2 := tc.Err(); (err1 == nil) != (err2 == nil) {
		w.Violate("C04", "err-flipped", "cause %s: Err() changed from %v to %v", cause, err1, err2)
	}
	w.Finish()
}

func clientTerminal(v *rpcView) *OpRec {
	for i := range v.all {
		r := &v.all[i]
		if r.Side != "client" || r.RetSeq == 0 {
			continue
		}
		if r.K == "invoke" || (r.K == "recv" && r.Err != "") || (r.K == "open" && r.Err != "") {
			return r
		}
	}
	return nil
}

// carrierServerResultFor reports the serving call of the tunnel in the world's
// direction: forward -> the handler's OpenTunnel call; reverse -> both the
// handler's OpenReverseTunnel call and ReverseTunnelServer.Serve must have returned.
func (w *World) carrierServerResultFor() (string, bool) {
	links := w.Conn.Links()
	if len(links) == 0 {
		return "", false
	}
	err, done := links[0].ServerReturn()
	if w.Cfg.Dir == "reverse" {
		sr := w.ServeState(0)
		if !sr.Returned || !done {
			return "", false
		}
		if sr.Err != nil {
			return sr.Err.Error(), true
		}
		return errString(err), true
	}
	return errString(err), done
}

var _ = fmt.Sprintf
