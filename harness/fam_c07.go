package h

// C07: cancel / deadline fault enumeration. Every RPC of the every-phase
// workload (plus RPCs that complete normally) is cancelled after exactly k
// frames have been delivered; the gate keeps the cancel frame (and the peer's
// frames) in flight so that "without waiting for the peer" and "one of the two
// legal outcomes" are decided on what the caller has seen at that instant.

import (
	"context"
	"math/rand"
	"sort"
	"time"

	"google.golang.org/grpc/codes"
	"google.golang.org/grpc/metadata"
)

func c07Specs(fc bool) []*RPCSpec {
	// (without the two revision-zero phases that park a receive loop on an unread stream: behind a
	// parked loop no notice is ever "delivered", which is the premise of the handler-side clause;
	// head-of-line blocking is what revision zero is)
	var specs []*RPCSpec
	for _, s := range phaseSpecs(fc) {
		if s.ID != "cloop" && s.ID != "sloop" {
			specs = append(specs, s)
		}
	}
	trl := metadata.MD{"t": {"1", "2"}}
	specs = append(specs,
		// completes normally unless cancelled: three messages and trailers
		&RPCSpec{ID: "ss3", Method: "ServerStream", UseTrailerOpt: true, Client: []Op{{K: "open"}, {K: "send", N: 10}, {K: "close"}, {K: "recvall"}, {K: "trailer"}},
			Handler: []Op{{K: "recv"}, {K: "send", N: 100}, {K: "send", N: 17000}, {K: "send", N: 5}, {K: "settrl", MD: trl}, {K: "ret"}}},
		&RPCSpec{ID: "u2", Method: "Unary", UseTrailerOpt: true, Client: []Op{{K: "invoke", N: 20000}},
			Handler: []Op{{K: "recv"}, {K: "send", N: 18000}, {K: "settrl", MD: trl}, {K: "ret"}}},
		&RPCSpec{ID: "cs2", Method: "ClientStream", Client: []Op{{K: "open"}, {K: "send", N: 10}, {K: "send", N: 17000}, {K: "close"}, {K: "recvall"}, {K: "trailer"}},
			Handler: []Op{{K: "recvall"}, {K: "send", N: 7}, {K: "settrl", MD: trl}, {K: "ret", Code: codes.NotFound, Msg: "scripted"}}},
	)
	return specs
}

func init() {
	families["cancel"] = famCancel
	listers["C07"] = func(tier string, seed int64) []Case {
		var out []Case
		rng := rand.New(rand.NewSource(seed*4447 + 7))
		step, maxK := 5, 80
		if tier == "thorough" {
			step = 1
		}
		reps := 1
		if tier == "thorough" {
			reps = 4
		}
		for r := 0; r < reps; r++ {
			for _, dir := range []string{"forward", "reverse"} {
				for _, fc := range []bool{true, false} {
					specs := c07Specs(fc)
					for ti, sp := range specs {
						for _, how := range []string{"cancel", "deadline"} {
							off := (ti + int(seed)) % step
							for k := off; k <= maxK; k += step {
								cfg := WorldCfg{Dir: dir}
								if !fc {
									cfg.ClientNoFC, cfg.ServerNoFC = true, true
								}
								out = append(out, Case{Family: "cancel", Seed: rng.Int63(), Cfg: cfg, P: map[string]int{"k": k}, S: map[string]string{"target": sp.ID, "how": how}})
								switch sp.ID {
								case "ss3", "u2", "cs2", "done":
									// the cancel races with delivery of the peer's pending frames (close, data, window updates)
									out = append(out, Case{Family: "cancel", Seed: rng.Int63(), Cfg: cfg, P: map[string]int{"k": k, "race": 1}, S: map[string]string{"target": sp.ID, "how": "cancel"}})
								}
							}
						}
					}
				}
			}
		}
		return out
	}
}

func openSet(env *Env, except string) []string {
	var out []string
	for _, r := range env.Log.OpenOps() {
		if r.RPC != except {
			out = append(out, r.Actor+"/"+r.K)
		}
	}
	sort.Strings(out)
	return out
}

func famCancel(w *World, c *Case, rng *rand.Rand) {
	if err := w.Open(nil); err != nil {
		w.Violate("C11", "open-failed", "open: %v", err)
		w.Finish()
		return
	}
	target, how, k := c.s("target", "crecv"), c.s("how", "cancel"), c.p("k", 0)
	w.SigExtra = target + "/" + how
	specs := c07Specs(w.Cfg.RevisionOne())
	var tgt *RPCSpec
	for _, s := range specs {
		if s.ID == target {
			tgt = s
			if how == "deadline" {
				s.Timeout = 30 * time.Minute
			}
			s.CtxCause = rng.Intn(2) == 0
			if rng.Intn(3) == 0 {
				// the call also carries a grpc-timeout header of its own, unrelated to (and far
				// beyond) the caller's context: the peer must still be told when the caller gives up
				s.GrpcTimeout = []string{"2H", "100M", "x"}[rng.Intn(3)]
			}
		}
	}
	if tgt == nil {
		w.Finish()
		return
	}
	w.Conn.SetGated(true)
	for _, s := range specs {
		w.Env.StartRPC(context.Background(), w.Ch, s)
	}
	link := w.Conn.Links()[0]
	delivered := 0
	for delivered < k {
		w.Wait()
		var cands []Dir
		for _, d := range []Dir{C2S, S2C} {
			tot, rel := link.Pending(d)
			if tot > rel {
				cands = append(cands, d)
			}
		}
		if len(cands) == 0 {
			break
		}
		link.Release(cands[rng.Intn(len(cands))], 1)
		delivered++
	}
	w.Wait()
	w.Stat("frames_before_fault", delivered)
	views := buildViews(w.Env)
	completedBefore := views[target] != nil && clientTerminal(views[target]) != nil
	handlerCtxWaiting := false
	for _, r := range w.Env.Log.OpenOps() {
		if r.RPC == target && r.K == "ctxwait" {
			handlerCtxWaiting = true
		}
	}
	before := openSet(w.Env, target)
	race := c.p("race", 0) == 1
	if race {
		// park the client's receive loop and finish path for PRNG-chosen virtual
		// durations so that either side of the race can win
		plan := &YieldPlan{Parks: map[string][]time.Duration{}}
		for _, pt := range []string{"client.recv.gotFrame", "client.recv.beforeAccept", "client.finish.afterDone", "client.cancel.beforeReceiverCancel", "client.finish.betweenPublish"} {
			ds := make([]time.Duration, 40)
			for i := range ds {
				if rng.Intn(3) == 0 {
					ds[i] = time.Duration(1+rng.Intn(3)) * time.Microsecond
				}
			}
			plan.Parks[pt] = ds
		}
		w.installYield(plan)
		w.Conn.SetGated(false)
		link.ReleaseAll()
		if rng.Intn(2) == 0 {
			time.Sleep(time.Duration(rng.Intn(6)) * time.Microsecond)
		}
		w.Stat("cancel_race_runs", 1)
	}
	// ---- strike ----
	t0 := w.VT()
	if how == "cancel" {
		tgt.cancel()
	} else {
		time.Sleep(30*time.Minute + time.Millisecond)
	}
	w.Wait()
	w.Stat("cancel_runs", 1)
	if completedBefore {
		w.Stat("cancel_after_completion", 1)
	} else {
		w.Stat("cancel_in_flight", 1)
	}
	// A: the caller's operations have returned, without any frame having been delivered
	for _, r := range w.Env.Log.OpenOps() {
		if r.RPC == target && r.Side == "client" && !race {
			w.Violate("C07", "caller-waits-for-peer:"+r.K, "%s of rpc %s (%s, k=%d): caller op %s still blocked although no frame can reach the peer", how, target, w.Cfg, k, r.K)
		}
	}
	if how == "cancel" && w.VT() != t0 && !race {
		w.Violate("C07", "caller-return-took-time", "cancel of %s: virtual time advanced by %v", target, w.VT()-t0)
	}
	// the peer has not been told yet: a handler waiting on its context must still be waiting
	if handlerCtxWaiting {
		stillWaiting := false
		for _, r := range w.Env.Log.OpenOps() {
			if r.RPC == target && r.K == "ctxwait" {
				stillWaiting = true
			}
		}
		if !stillWaiting {
			w.Note("handler context of %s ended before the cancel frame was delivered", target)
		}
	}
	// B: deliver everything (and let callers parked at a harness sync point go on to read their result)
	w.Env.Signal("never")
	w.Conn.SetGated(false)
	link.ReleaseAll()
	w.Advance(time.Second)
	for _, r := range w.Env.Log.OpenOps() {
		if r.RPC == target && r.Side == "handler" {
			if r.K == "ctxwait" {
				w.Violate("C07", "handler-ctx-not-cancelled", "%s of rpc %s (k=%d, %s): the handler's context is still live after the notice was delivered", how, target, k, w.Cfg)
			} else {
				w.Violate("C07", "handler-op-still-blocked:"+r.K, "%s of rpc %s (k=%d, %s): handler op %s still blocked after the notice was delivered", how, target, k, w.Cfg, r.K)
			}
		}
	}
	// outcome: exactly one of the two legal outcomes
	views = buildViews(w.Env)
	v := views[target]
	if t := clientTerminal(v); t != nil {
		w.Stat("cancel_outcomes_checked", 1)
		cancelled := t.Code == codes.Canceled || t.Code == codes.DeadlineExceeded || t.Err == context.Canceled.Error() || t.Err == context.DeadlineExceeded.Error()
		normalOK := (t.K == "invoke" && t.Err == "") || (t.K == "recv" && t.EOF)
		scripted := v.ret != nil && v.ret.Code != codes.OK && t.Code == v.ret.Code && t.StatusMsg == v.ret.StatusMsg
		switch {
		case normalOK || scripted:
			w.Stat("cancel_lost_race_normal_outcome", 1)
			// must be the complete normal outcome
			if v.ret == nil {
				w.Violate("C07", "success-without-handler-return", "rpc %s reported a normal outcome but its handler never returned", target)
			} else {
				okSends := 0
				for _, s := range v.hdlSends {
					if s.RetSeq != 0 && s.Err == "" {
						okSends++
					}
				}
				got := 0
				for _, r := range v.cliRecvs {
					if r.RetSeq != 0 && r.Err == "" {
						got++
					}
				}
				if v.invoke != nil && v.invoke.Err == "" {
					got++
				}
				if normalOK && got != okSends {
					w.Violate("C07", "mixed-outcome:missing-data", "rpc %s: caller was told OK with %d message(s), handler sent %d", target, got, okSends)
				}
				// trailers
				want := mdString(metadata.MD{"t": {"1", "2"}})
				hasTrl := false
				for _, r := range v.all {
					if r.Side == "handler" && r.K == "settrl" {
						hasTrl = true
					}
				}
				if hasTrl {
					for _, r := range v.all {
						if r.Side == "client" && r.K == "trailer" && r.CallSeq > t.RetSeq && mdString(r.MD) != want {
							w.Violate("C07", "mixed-outcome:missing-trailers", "rpc %s: normal outcome but Trailer() = %s", target, mdString(r.MD))
						}
						if r.Side == "client" && r.K == "invoke" && r.Err == "" && r.Extra["trl_opt"] != want {
							w.Violate("C07", "mixed-outcome:missing-trailers", "rpc %s: Invoke succeeded but the grpc.Trailer target = %s", target, r.Extra["trl_opt"])
						}
					}
				}
			}
		case cancelled:
			w.Stat("cancel_won_race", 1)
			if completedBefore {
				w.Violate("C07", "completed-rpc-changed-outcome", "rpc %s had completed before the cancel", target)
			}
			// the code names the cause: Canceled for a cancelled context, DeadlineExceeded for an expired one
			if wantCode := map[string]codes.Code{"cancel": codes.Canceled, "deadline": codes.DeadlineExceeded}[how]; !completedBefore && wantCode != 0 && t.Code != wantCode && t.Err != map[codes.Code]string{codes.Canceled: context.Canceled.Error(), codes.DeadlineExceeded: context.DeadlineExceeded.Error()}[wantCode] {
				w.Violate("C07", "wrong-code-for-cause", "%s of rpc %s (k=%d, %s): the caller got code %v (%q), want %v", how, target, k, w.Cfg, t.Code, t.Err, wantCode)
			}
		default:
			if !completedBefore {
				w.Violate("C07", "neither-legal-outcome", "%s of rpc %s (k=%d, %s): caller got %q: neither Canceled/DeadlineExceeded nor the handler's outcome", how, target, k, w.Cfg, t.Err)
			}
		}
	} else if v != nil {
		w.Violate("C07", "no-terminal-result", "%s of rpc %s: no terminal result", how, target)
	}
	w.CheckDelivery()
	// bystanders: same operations open as before the cancel; tunnel up
	after := openSet(w.Env, target)
	if len(after) < len(before) {
		// an op may legitimately have completed because held frames were released; it must not have failed:
		for _, r := range w.Env.Log.Records() {
			if r.RPC != target && r.Side == "client" && r.RetSeq != 0 && r.Err != "" && !r.EOF && r.Code != codes.Aborted && r.Code != codes.NotFound {
				w.Violate("C07", "bystander-failed", "%s of rpc %s: bystander %s op %s failed: %s", how, target, r.RPC, r.K, r.Err)
			}
		}
	}
	select {
	case <-w.TCh.Done():
		w.Violate("C07", "tunnel-ended", "%s of rpc %s ended the tunnel: %v", how, target, w.TCh.Err())
	default:
	}
	// tables no longer hold the cancelled RPC: count in-flight = started and not finished
	inflightC, inflightS := 0, 0
	for id, vv := range buildViews(w.Env) {
		if vv.spec == nil {
			continue
		}
		if clientTerminal(vv) == nil {
			inflightC++
		}
		invoked := false
		for _, inv := range w.Env.Log.Invocations {
			if inv.RPC == id {
				invoked = true
			}
		}
		if invoked && vv.ret == nil {
			inflightS++
		}
	}
	w.CheckTables(w.TCh, inflightC, inflightS, false, "after cancel of "+target)
	w.Finish()
}
