package h

// E4: protocol conversation generator for a raw tunnel client against the real
// tunnel server, a catalogue of single-frame deviations applied at every
// position, and the sequential reference classifier (C09; reused by C03, C08, C16).

import (
	"fmt"
	"math"
	"math/rand"
	"runtime"
	"sort"
	"strings"
	"time"

	"google.golang.org/grpc/codes"
	"google.golang.org/protobuf/proto"

	"github.com/jhump/grpctunnel/tunnelpb"
)

func (e *Env) registerSpec(s *RPCSpec) {
	e.mu.Lock()
	e.specs[s.ID] = s
	e.mu.Unlock()
}

type convFrame struct {
	si int // stream index in conv.streams
	f  *tunnelpb.ClientToServer
}

type convStream struct {
	tag    string
	method string // Unary, ClientStream, ServerStream, Bidi
	id     int64
	sizes  []int
	base   []*tunnelpb.ClientToServer
	resp   []int // response payload sizes the scripted handler sends
}

type conversation struct {
	streams []*convStream
	frames  []convFrame
}

var devKinds = []string{
	"none", "drop", "dup", "swap", "retarget-unknown", "retarget-finished", "retarget-live", "retarget-negative",
	"kind-msg-more", "kind-to-cancel", "kind-to-half", "empty", "data-minus1", "data-plus1", "size-zero", "size-minus1", "size-plus1", "size-max", "size-64MiB",
	"method-empty", "method-noslash", "method-slash", "method-unknown-service", "method-unknown-method", "rev-unknown",
	"win-zero", "win-max", "insert-new-reuse-last-finished", "insert-new-dup", "insert-new-dup-badrev", "insert-new-lower-badrev", "insert-new-negative-badrev", "insert-new-dup-badmethod", "insert-new-lower", "insert-new-negative", "insert-frame-unknown-id", "big-chunk", "insert-data-after",
}

// idTop, when set, makes genConversation shift the stream ids so that the last stream created has
// the largest id there is (math.MaxInt64): the id arithmetic of the endpoints must hold up there.
var idTop bool

func genConversation(rng *rand.Rand, nStreams int, maxSize int, rev tunnelpb.ProtocolRevision) *conversation {
	c := &conversation{}
	shapes := []string{"Unary", "ClientStream", "ServerStream", "Bidi"}
	// stream 0: "fin" finishes at once; stream 1: bystander "by"; then victims
	mk := func(tag, method string, sizes []int, resp []int) *convStream {
		s := &convStream{tag: tag, method: method, sizes: sizes, resp: resp}
		c.streams = append(c.streams, s)
		return s
	}
	mk("fin", "Unary", []int{7}, []int{3})
	mk("by", "Bidi", []int{5, 6}, []int{15, 16})
	for i := 0; i < nStreams; i++ {
		m := shapes[rng.Intn(len(shapes))]
		var sizes []int
		n := 1
		if m == "ClientStream" || m == "Bidi" {
			n = 1 + rng.Intn(3)
		}
		for j := 0; j < n; j++ {
			sizes = append(sizes, genSize(rng, maxSize))
		}
		resp := []int{10 + rng.Intn(50)}
		if m == "ServerStream" {
			resp = append(resp, 20000+rng.Intn(100))
		}
		mk(fmt.Sprintf("v%d", i), m, sizes, resp)
	}
	// assign ids in order (with occasional legal gaps)
	id := int64(0)
	for _, s := range c.streams {
		s.id = id
		id += 1 + int64(rng.Intn(3))/2
	}
	if idTop {
		shift := int64(math.MaxInt64) - c.streams[len(c.streams)-1].id
		for _, s := range c.streams {
			s.id += shift
		}
	}
	for _, s := range c.streams {
		s.base = append(s.base, fNew(s.id, "verif.Svc/"+s.method, s.tag, rev, 65536))
		for k, sz := range s.sizes {
			s.base = append(s.base, msgFramesC2S(s.id, wrapBytes(GenPayload(s.tag, dirReq, k, sz)), 16384)...)
		}
		s.base = append(s.base, fHalf(s.id))
	}
	// interleave: fin first entirely; by's first message early, its rest at the very end;
	// victims interleaved randomly; new_stream frames in id order.
	fin, by := c.streams[0], c.streams[1]
	for _, f := range fin.base {
		c.frames = append(c.frames, convFrame{0, f})
	}
	c.frames = append(c.frames, convFrame{1, by.base[0]}, convFrame{1, by.base[1]})
	pos := make([]int, len(c.streams))
	started := 2 // streams whose new_stream has been emitted
	for {
		var cands []int
		for i := 2; i < len(c.streams); i++ {
			if pos[i] < len(c.streams[i].base) && (pos[i] > 0 || i == started) {
				cands = append(cands, i)
			}
		}
		if len(cands) == 0 {
			break
		}
		i := cands[rng.Intn(len(cands))]
		if pos[i] == 0 {
			started++
		}
		c.frames = append(c.frames, convFrame{i, c.streams[i].base[pos[i]]})
		pos[i]++
	}
	for _, f := range by.base[2:] {
		c.frames = append(c.frames, convFrame{1, f})
	}
	return c
}

func handlerScript(method string, nreq int, resp []int) []Op {
	var ops []Op
	switch method {
	case "Unary", "ServerStream":
		ops = append(ops, Op{K: "recv"})
	default:
		ops = append(ops, Op{K: "recvall"})
	}
	for _, n := range resp {
		ops = append(ops, Op{K: "send", N: n})
	}
	return append(ops, Op{K: "ret"})
}

// applyDeviation mutates the flat frame list. Returns the new list and a
// description; ok=false if the deviation does not apply at this position.
func applyDeviation(c *conversation, kind string, p int, rng *rand.Rand) ([]convFrame, string, bool) {
	fr := append([]convFrame(nil), c.frames...)
	if p >= len(fr) {
		return nil, "", false
	}
	cur := fr[p]
	clone := func(f *tunnelpb.ClientToServer) *tunnelpb.ClientToServer {
		return proto.Clone(f).(*tunnelpb.ClientToServer)
	}
	maxID := int64(0)
	for _, s := range c.streams {
		if s.id > maxID {
			maxID = s.id
		}
	}
	_, isNew := cur.f.Frame.(*tunnelpb.ClientToServer_NewStream)
	msg, isMsg := cur.f.Frame.(*tunnelpb.ClientToServer_RequestMessage)
	more, isMore := cur.f.Frame.(*tunnelpb.ClientToServer_MoreRequestData)
	replace := func(f *tunnelpb.ClientToServer) { fr[p] = convFrame{cur.si, f} }
	insertAfter := func(f *tunnelpb.ClientToServer) {
		fr = append(fr[:p+1], append([]convFrame{{-1, f}}, fr[p+1:]...)...)
	}
	switch kind {
	case "none":
		if p != 0 {
			return nil, "", false
		}
	case "drop":
		fr = append(fr[:p], fr[p+1:]...)
	case "dup":
		fr = append(fr[:p+1], append([]convFrame{{cur.si, clone(cur.f)}}, fr[p+1:]...)...)
	case "swap":
		if p+1 >= len(fr) {
			return nil, "", false
		}
		fr[p], fr[p+1] = fr[p+1], fr[p]
	case "retarget-unknown":
		f := clone(cur.f)
		f.StreamId = maxID + 1000
		replace(f)
	case "retarget-finished":
		if cur.si == 0 {
			return nil, "", false
		}
		f := clone(cur.f)
		f.StreamId = c.streams[0].id
		replace(f)
	case "retarget-live":
		if cur.si == 1 || isNew {
			return nil, "", false
		}
		f := clone(cur.f)
		f.StreamId = c.streams[1].id
		replace(f)
	case "retarget-negative":
		f := clone(cur.f)
		f.StreamId = -5
		replace(f)
	case "kind-msg-more":
		switch {
		case isMsg:
			replace(fMore(cur.f.StreamId, msg.RequestMessage.Data))
		case isMore:
			replace(fMsg(cur.f.StreamId, uint32(len(more.MoreRequestData)), more.MoreRequestData))
		default:
			return nil, "", false
		}
	case "kind-to-cancel":
		if isNew {
			return nil, "", false
		}
		replace(fCancel(cur.f.StreamId))
	case "kind-to-half":
		if isNew {
			return nil, "", false
		}
		if _, ok := cur.f.Frame.(*tunnelpb.ClientToServer_HalfClose); ok {
			return nil, "", false
		}
		replace(fHalf(cur.f.StreamId))
	case "empty":
		if isNew {
			return nil, "", false
		}
		replace(&tunnelpb.ClientToServer{StreamId: cur.f.StreamId})
	case "data-minus1", "data-plus1":
		var data []byte
		switch {
		case isMsg:
			data = msg.RequestMessage.Data
		case isMore:
			data = more.MoreRequestData
		default:
			return nil, "", false
		}
		if kind == "data-minus1" {
			if len(data) == 0 {
				return nil, "", false
			}
			data = data[:len(data)-1]
		} else {
			data = append(append([]byte{}, data...), 0x55)
		}
		if isMsg {
			replace(fMsg(cur.f.StreamId, msg.RequestMessage.Size, data))
		} else {
			replace(fMore(cur.f.StreamId, data))
		}
	case "size-zero", "size-minus1", "size-plus1", "size-max", "size-64MiB":
		if !isMsg {
			return nil, "", false
		}
		sz := msg.RequestMessage.Size
		switch kind {
		case "size-zero":
			if sz == 0 {
				return nil, "", false
			}
			sz = 0
		case "size-minus1":
			if sz == 0 {
				return nil, "", false
			}
			sz--
		case "size-plus1":
			sz++
		case "size-max":
			sz = 0xffffffff
		case "size-64MiB":
			sz = 64 << 20
		}
		replace(fMsg(cur.f.StreamId, sz, msg.RequestMessage.Data))
	case "method-empty", "method-noslash", "method-slash", "method-unknown-service", "method-unknown-method", "rev-unknown":
		if !isNew || cur.si < 2 {
			return nil, "", false
		}
		f := clone(cur.f)
		ns := f.Frame.(*tunnelpb.ClientToServer_NewStream).NewStream
		switch kind {
		case "method-empty":
			ns.MethodName = ""
		case "method-noslash":
			ns.MethodName = "verif.SvcUnary"
		case "method-slash":
			ns.MethodName = "/"
		case "method-unknown-service":
			ns.MethodName = "/nosuch.Service/Method"
		case "method-unknown-method":
			ns.MethodName = "verif.Svc/NoSuchMethod"
		case "rev-unknown":
			ns.ProtocolRevision = 7
		}
		replace(f)
	case "win-zero":
		insertAfter(fWin(cur.f.StreamId, 0))
	case "win-max":
		insertAfter(fWin(cur.f.StreamId, 0xffffffff))
	case "insert-new-reuse-last-finished":
		// frame p must be the half-close of the stream with the highest id created so far:
		// once its handler has finished, the id equals lastSeen and belongs to no live stream
		if _, ok := cur.f.Frame.(*tunnelpb.ClientToServer_HalfClose); !ok {
			return nil, "", false
		}
		hi := int64(-1)
		for q := 0; q <= p; q++ {
			if _, ok := fr[q].f.Frame.(*tunnelpb.ClientToServer_NewStream); ok && fr[q].f.StreamId > hi {
				hi = fr[q].f.StreamId
			}
		}
		if hi != cur.f.StreamId {
			return nil, "", false
		}
		insertAfter(fNew(cur.f.StreamId, "verif.Svc/Unary", "dupnew", tunnelpb.ProtocolRevision_REVISION_ONE, 65536))
	case "insert-new-dup-badrev":
		// a stale id on a refusal path (unsupported revision): still a tunnel-level violation
		insertAfter(fNew(cur.f.StreamId, "verif.Svc/Unary", "dupnew", 7, 65536))
	case "insert-new-lower-badrev":
		if cur.f.StreamId == 0 {
			return nil, "", false
		}
		insertAfter(fNew(cur.f.StreamId-1, "verif.Svc/Unary", "lowernew", 7, 65536))
	case "insert-new-negative-badrev":
		insertAfter(fNew(-3, "verif.Svc/Unary", "negnew", 9, 65536))
	case "insert-new-dup-badmethod":
		insertAfter(fNew(cur.f.StreamId, "no-slash", "dupnew", tunnelpb.ProtocolRevision_REVISION_ONE, 65536))
	case "insert-new-dup":
		insertAfter(fNew(cur.f.StreamId, "verif.Svc/Unary", "dupnew", tunnelpb.ProtocolRevision_REVISION_ONE, 65536))
	case "insert-new-lower":
		if cur.f.StreamId == 0 {
			return nil, "", false
		}
		insertAfter(fNew(cur.f.StreamId-1, "verif.Svc/Unary", "lowernew", tunnelpb.ProtocolRevision_REVISION_ONE, 65536))
	case "insert-new-negative":
		insertAfter(fNew(-3, "verif.Svc/Unary", "negnew", tunnelpb.ProtocolRevision_REVISION_ONE, 65536))
	case "insert-frame-unknown-id":
		insertAfter(fMsg(maxID+500, 1, []byte{1}))
	case "big-chunk":
		if !isMsg || len(msg.RequestMessage.Data) != 16384 {
			return nil, "", false
		}
		// merge this envelope with the following continuation of the same stream into one 32 KiB frame
		for q := p + 1; q < len(fr); q++ {
			if fr[q].si == cur.si {
				if m2, ok := fr[q].f.Frame.(*tunnelpb.ClientToServer_MoreRequestData); ok {
					data := append(append([]byte{}, msg.RequestMessage.Data...), m2.MoreRequestData...)
					replace(fMsg(cur.f.StreamId, msg.RequestMessage.Size, data))
					fr = append(fr[:q], fr[q+1:]...)
					return fr, fmt.Sprintf("%s@%d", kind, p), true
				}
				break
			}
		}
		return nil, "", false
	case "insert-data-after":
		insertAfter(fMsg(cur.f.StreamId, 3, []byte{1, 2, 3}))
	default:
		return nil, "", false
	}
	return fr, fmt.Sprintf("%s@%d", kind, p), true
}

type streamVerdict struct {
	class string // clean, refused, perturbed, absent
	code  codes.Code
}

// classify is the sequential reference model of the documented server
// behaviour. It returns per base stream the expected class, whether the tunnel
// must end (and after how many frames), and the set of refused extra tags.
func classify(c *conversation, frames []convFrame) (verdicts []streamVerdict, tunnelDies bool, diesAt int) {
	lastSeen := int64(-1)
	created := map[int64]bool{}
	perID := map[int64][]*tunnelpb.ClientToServer{}
	diesAt = -1
	for i, cf := range frames {
		f := cf.f
		if _, ok := f.Frame.(*tunnelpb.ClientToServer_NewStream); ok {
			if created[f.StreamId] || f.StreamId <= lastSeen {
				tunnelDies, diesAt = true, i
				break
			}
			lastSeen = f.StreamId
			created[f.StreamId] = true
			perID[f.StreamId] = append(perID[f.StreamId], f)
			continue
		}
		if !created[f.StreamId] {
			if f.StreamId > lastSeen {
				tunnelDies, diesAt = true, i
				break
			}
			continue // an id below lastSeen that was skipped: "used and disposed"; ignored
		}
		perID[f.StreamId] = append(perID[f.StreamId], f)
	}
	// a tag that ends up on more than one new_stream frame (duplicated and retargeted by
	// multi-mutations) cannot be judged per tag
	tagNews := map[string]int{}
	for _, cf := range frames {
		if ns, ok := cf.f.Frame.(*tunnelpb.ClientToServer_NewStream); ok {
			if v := ns.NewStream.GetRequestHeaders().GetMd()["x-rpc"]; v != nil && len(v.Val) > 0 {
				tagNews[v.Val[0]]++
			}
		}
	}
	for _, s := range c.streams {
		got := perID[s.id]
		v := streamVerdict{class: "perturbed"}
		switch {
		case tagNews[s.tag] > 1:
		case len(got) == 0:
			v.class = "absent"
		case sameFrames(got, s.base):
			v.class = "clean"
		default:
			if ns, ok := got[0].Frame.(*tunnelpb.ClientToServer_NewStream); ok {
				name := ns.NewStream.MethodName
				switch {
				case ns.NewStream.ProtocolRevision != 0 && ns.NewStream.ProtocolRevision != 1:
					v = streamVerdict{"refused", codes.Unavailable}
				case name == "" || !strings.Contains(strings.TrimPrefix(name, "/"), "/"):
					v = streamVerdict{"refused", codes.InvalidArgument}
				case !strings.HasPrefix(strings.TrimPrefix(name, "/"), "verif.Svc/") || !knownMethod(name):
					v = streamVerdict{"refused", codes.Unimplemented}
				}
			}
		}
		verdicts = append(verdicts, v)
	}
	return
}

func knownMethod(name string) bool {
	name = strings.TrimPrefix(name, "/")
	for _, m := range []string{"Unary", "ClientStream", "ServerStream", "Bidi"} {
		if name == "verif.Svc/"+m {
			return true
		}
	}
	return false
}

func sameFrames(a, b []*tunnelpb.ClientToServer) bool {
	if len(a) != len(b) {
		return false
	}
	for i := range a {
		if !proto.Equal(a[i], b[i]) {
			return false
		}
	}
	return true
}

func init() {
	families["rawconv"] = famRawConv
	listers["C09"] = func(tier string, seed int64) []Case {
		var out []Case
		rng := rand.New(rand.NewSource(seed*7907 + 9))
		nconv, nrev1 := 10, 6
		stride := 2
		ntop := 2 // the last conversations use ids up to math.MaxInt64
		if tier == "thorough" {
			nconv, nrev1 = 110, 80
			stride = 1
			ntop = 10
		}
		for ci := 0; ci < nconv; ci++ {
			cseed := rng.Int63()
			nstreams := 1 + ci%3
			// the last conversations open their streams with protocol revision zero (no flow
			// control on those streams, on a tunnel that negotiated revision one)
			rev0 := 0
			if ci >= nrev1 && ci < nconv-ntop {
				rev0 = 1
			}
			top := 0
			if ci >= nconv-ntop {
				top = 1
			}
			idTop = top == 1
			conv := genConversation(rand.New(rand.NewSource(cseed)), nstreams, 19000, tunnelpb.ProtocolRevision(1-rev0))
			idTop = false
			nf := len(conv.frames)
			for di, kind := range devKinds {
				off := (ci*31 + di*3) % stride
				for p := off; p < nf; p += stride {
					if _, _, ok := applyDeviation(conv, kind, p, rng); !ok {
						continue
					}
					dir := []string{"forward", "reverse"}[(p+di)%2]
					out = append(out, Case{Family: "rawconv", Seed: cseed, Cfg: WorldCfg{Dir: dir}, P: map[string]int{"pos": p, "nstreams": nstreams, "burst": (p / stride) % 2, "rev0": rev0, "idtop": top}, S: map[string]string{"dev": kind}})
				}
			}
		}
		// random multi-mutations
		nmulti := 300
		if tier == "thorough" {
			nmulti = 60000
		}
		for i := 0; i < nmulti; i++ {
			out = append(out, Case{Family: "rawconv", Seed: rng.Int63(), Cfg: WorldCfg{Dir: []string{"forward", "reverse"}[i%2]}, P: map[string]int{"pos": -1, "nstreams": 1 + i%3, "multi": 2 + i%3, "burst": i % 2, "rev0": (i / 2) % 2 * (i / 4) % 2}, S: map[string]string{"dev": "multi"}})
		}
		return out
	}
}

func famRawConv(w *World, c *Case, rng *rand.Rand) {
	idTop = c.p("idtop", 0) == 1
	conv := genConversation(rand.New(rand.NewSource(c.Seed)), c.p("nstreams", 2), 19000, tunnelpb.ProtocolRevision(1-c.p("rev0", 0)))
	idTop = false
	frames := conv.frames
	desc := "none"
	kind := c.s("dev", "none")
	if kind == "multi" {
		var parts []string
		cur := conv
		for i := 0; i < c.p("multi", 2); i++ {
			for try := 0; try < 20; try++ {
				k := devKinds[1+rng.Intn(len(devKinds)-1)]
				p := rng.Intn(len(cur.frames))
				if fr, d, ok := applyDeviation(cur, k, p, rng); ok {
					cur = &conversation{streams: conv.streams, frames: fr}
					parts = append(parts, d)
					break
				}
			}
		}
		frames = cur.frames
		desc = strings.Join(parts, "+")
	} else {
		fr, d, ok := applyDeviation(conv, kind, c.p("pos", 0), rng)
		if !ok {
			w.Note("deviation %s does not apply at %d", kind, c.p("pos", 0))
			w.Finish()
			return
		}
		frames, desc = fr, d
	}
	w.SigExtra = desc
	verdicts, tunnelDies, diesAt := classify(conv, frames)

	w.Wire.JudgeClient = false
	w.Window.JudgeClient = false
	w.Wire.ClientAwaitsSettings = true
	rc, err := w.OpenRawClient(true, false)
	if err != nil {
		w.Violate("C09", "raw-open-failed", "raw client could not open the tunnel: %v", err)
		w.Finish()
		return
	}
	for _, s := range conv.streams {
		w.Env.registerSpec(&RPCSpec{ID: s.tag, Method: s.method, Handler: handlerScript(s.method, len(s.sizes), s.resp)})
	}
	for _, tag := range []string{"dupnew", "lowernew", "negnew"} {
		w.Env.registerSpec(&RPCSpec{ID: tag, Method: "Unary", Handler: []Op{{K: "recv"}, {K: "send", N: 1}, {K: "ret"}}})
	}
	w.Wait() // settings
	runtime.GC()
	var m0, m1 runtime.MemStats
	runtime.ReadMemStats(&m0)
	burst := c.p("burst", 0) == 1 && kind != "insert-new-reuse-last-finished"
	for i, cf := range frames {
		if err := rc.Send(cf.f); err != nil {
			break
		}
		if !burst || i == diesAt {
			w.Wait()
		}
	}
	w.Advance(time.Second)
	// memory: everything the conversation sent is below 200 kB; whatever the peer *announced*,
	// the endpoint may not allocate or retain much more than it received (streams are still open here)
	runtime.ReadMemStats(&m1)
	if alloc := int64(m1.TotalAlloc) - int64(m0.TotalAlloc); alloc > 48<<20 {
		w.Violate("C09", "endpoint-bloated-by-peer-input", "deviation %s: the endpoint allocated %d MiB while processing a conversation of %d frames carrying less than 200 kB", desc, alloc>>20, len(frames))
	}
	w.Stat("raw_heap_checks", 1)
	views, recvDone, recvErr := rc.Snapshot()
	w.Stat("raw_conversations", 1)
	w.Stat("raw_frames_sent", len(frames))

	// ---- tunnel-level verdict ----
	serveErr, serveReturned := w.carrierServerResult()
	if tunnelDies {
		w.Stat("raw_expect_tunnel_dead", 1)
		if _, isNew := frames[diesAt].f.Frame.(*tunnelpb.ClientToServer_NewStream); isNew {
			w.Stat("raw_bad_new_stream_id", 1)
		}
		if !recvDone || !serveReturned {
			if _, isNew := frames[diesAt].f.Frame.(*tunnelpb.ClientToServer_NewStream); isNew {
				w.Violate("C08", "non-increasing-id-accepted", "deviation %s: new_stream with id %d, not greater than every id seen, did not end the tunnel", desc, frames[diesAt].f.StreamId)
			}
			w.Violate("C09", "tunnel-level-violation-not-fatal", "deviation %s is a tunnel-level violation (frame %d) but the tunnel server kept serving", desc, diesAt)
			if serveReturned && !recvDone {
				// the serving call gave the tunnel up, yet the carrier stream was not released: the peer
				// never observes the end ("both ends observe it")
				w.Violate("C04", "aborted-tunnel-not-visible-to-peer", "deviation %s: the serving call returned (%q) but the carrier stream was neither ended nor cancelled: the peer still sees a live tunnel", desc, serveErr)
			}
		} else if serveErr == "" {
			w.Violate("C09", "tunnel-level-violation-nil-error", "deviation %s is a tunnel-level violation but the serving call returned a nil error", desc)
		}
	} else {
		w.Stat("raw_expect_tunnel_alive", 1)
		if recvDone || serveReturned {
			w.Violate("C09", "stream-level-violation-killed-tunnel", "deviation %s is at most a stream-level violation but the tunnel ended (recv err %v, serve err %q)", desc, recvErr, serveErr)
			w.Violate("C03", "raw-deviation-killed-tunnel", "deviation %s on one stream ended the tunnel (serve err %q)", desc, serveErr)
			w.Violate("C08", "known-id-frame-killed-tunnel", "deviation %s: only frames for identifiers the server has created or finished with were sent, yet the tunnel ended (serve err %q)", desc, serveErr)
		}
	}
	// ---- per-stream verdicts ----
	invoked := map[string]int{}
	for _, inv := range w.Env.Log.Invocations {
		invoked[inv.RPC]++
	}
	for i, s := range conv.streams {
		v := verdicts[i]
		view, seen := views[s.id]
		if tunnelDies {
			continue
		}
		switch v.class {
		case "clean":
			w.Stat("raw_clean_streams", 1)
			if !seen || view.Closes != 1 || view.Close.GetStatus().GetCode() != 0 {
				code := int32(-1)
				if seen && view.Close != nil {
					code = view.Close.GetStatus().GetCode()
				}
				w.Violate("C09", "bystander-stream-disturbed", "deviation %s does not touch stream %s (id %d) but it did not complete normally (closes=%d code=%d)", desc, s.tag, s.id, view.Closes, code)
				w.Violate("C03", "raw-deviation-disturbed-bystander", "deviation %s on another stream: stream %s (id %d) did not complete normally (closes=%d code=%d)", desc, s.tag, s.id, view.Closes, code)
				continue
			}
			if len(view.Msgs) != len(s.resp) {
				w.Violate("C09", "bystander-stream-disturbed", "deviation %s: untouched stream %s got %d responses, handler sends %d", desc, s.tag, len(view.Msgs), len(s.resp))
			}
			if invoked[s.tag] != 1 {
				w.Violate("C09", "bystander-stream-disturbed", "deviation %s: untouched stream %s had %d handler invocations", desc, s.tag, invoked[s.tag])
			}
		case "refused":
			w.Stat("raw_refused_streams", 1)
			if invoked[s.tag] != 0 {
				w.Violate("C09", "refused-stream-invoked-handler", "deviation %s: stream %s must be refused but a handler ran", desc, s.tag)
			}
			if !seen || view.Closes != 1 {
				w.Violate("C09", "refused-stream-close-count", "deviation %s: refused stream %s got %d close frames", desc, s.tag, view.Closes)
			} else if codes.Code(view.Close.GetStatus().GetCode()) != v.code {
				w.Violate("C09", "refused-stream-wrong-code", "deviation %s: refused stream %s closed with %v, documented %v", desc, s.tag, codes.Code(view.Close.GetStatus().GetCode()), v.code)
			}
		case "perturbed":
			w.Stat("raw_perturbed_streams", 1)
			if seen && view.Closes > 1 {
				w.Violate("C13", "second-close", "deviation %s: stream %s got %d close frames", desc, s.tag, view.Closes)
			}
		}
	}
	// the handler must never be shown a message that was not completely and exactly sent
	w.checkRawRequestDelivery(conv, frames)

	// hang up; everything must be released
	rc.Hangup()
	w.Advance(time.Second)
	if !tunnelDies {
		serveErr, serveReturned = w.carrierServerResult()
		if !serveReturned {
			w.Violate("C09", "serve-not-returned-after-hangup", "deviation %s: the serving call did not return after the raw peer hung up", desc)
		} else if serveErr != "" {
			w.Violate("C09", "serve-error-after-clean-hangup", "deviation %s: the serving call returned %q after a clean hang-up", desc, serveErr)
		}
	}
	for _, r := range w.Env.Log.OpenOps() {
		w.Violate("C09", "handler-op-open-after-hangup", "deviation %s: handler %s op %s still blocked after the peer hung up", desc, r.RPC, r.K)
	}
	w.CheckTables(nil, 0, 0, true, "after raw peer hung up")
	w.Finish()
}

// carrierServerResult reports whether the real tunnel server's serving call
// has returned and with what error. Forward: the carrier handler (openTunnel);
// reverse: ReverseTunnelServer.Serve.
func (w *World) carrierServerResult() (errStr string, returned bool) {
	if w.Cfg.Dir == "reverse" {
		if len(w.Serves) == 0 {
			return "", false
		}
		sr := w.ServeState(0)
		if !sr.Returned {
			return "", false
		}
		return errString(sr.Err), true
	}
	links := w.Conn.Links()
	if len(links) == 0 {
		return "", false
	}
	err, done := links[0].ServerReturn()
	return errString(err), done
}

// checkRawRequestDelivery: every message a handler received must equal a
// message that was sent completely and contiguously on that stream id.
func (w *World) checkRawRequestDelivery(conv *conversation, frames []convFrame) {
	// well-formed messages per stream id in the sent sequence (resynchronising at every envelope)
	type wf struct {
		size int
		sum  uint64
	}
	sent := map[int64][]wf{}
	cur := map[int64][]byte{}
	curLen := map[int64]int{}
	tagOf := map[int64]string{}
	halved := map[int64]bool{}
	halfMid := map[int64]bool{}
	for _, cf := range frames {
		id := cf.f.StreamId
		switch fr := cf.f.Frame.(type) {
		case *tunnelpb.ClientToServer_RequestMessage:
			cur[id] = append([]byte{}, fr.RequestMessage.Data...)
			curLen[id] = int(fr.RequestMessage.Size)
			if len(cur[id]) == curLen[id] {
				sent[id] = append(sent[id], wf{len(cur[id]), sum64(cur[id])})
				delete(cur, id)
			}
		case *tunnelpb.ClientToServer_MoreRequestData:
			if b, ok := cur[id]; ok {
				b = append(b, fr.MoreRequestData...)
				cur[id] = b
				if len(b) == curLen[id] {
					sent[id] = append(sent[id], wf{len(b), sum64(b)})
					delete(cur, id)
				} else if len(b) > curLen[id] {
					delete(cur, id)
				}
			}
		case *tunnelpb.ClientToServer_NewStream:
			if md := fr.NewStream.RequestHeaders; md != nil && tagOf[id] == "" {
				if v := md.Md["x-rpc"]; v != nil && len(v.Val) > 0 {
					tagOf[id] = v.Val[0]
				}
			}
		case *tunnelpb.ClientToServer_HalfClose:
			if _, pending := cur[id]; pending && !halved[id] {
				halfMid[id] = true
			}
			halved[id] = true
		default:
		}
	}
	// a half-close in the middle of a message is a stream-level violation: the handler must not be
	// told that the request stream ended normally
	for id := range halfMid {
		for _, r := range w.Env.Log.Records() {
			if tagOf[id] != "" && r.RPC == tagOf[id] && r.Side == "handler" && r.K == "recv" && r.RetSeq != 0 && r.EOF {
				w.Violate("C09", "half-close-inside-message-reported-as-end-of-stream", "stream %d (%s) was half-closed in the middle of a request message, its handler's receive reported a normal end of stream", id, r.RPC)
				w.Violate("C01", "truncated-message-reported-as-end-of-stream", "stream %d (%s) was half-closed in the middle of a request message, its handler's receive reported a normal end of stream", id, r.RPC)
				break
			}
		}
		w.Stat("raw_half_close_inside_message", 1)
	}
	byTag := map[string]*convStream{}
	for _, s := range conv.streams {
		byTag[s.tag] = s
	}
	for _, r := range w.Env.Log.Records() {
		if r.Side != "handler" || r.K != "recv" || r.RetSeq == 0 || r.Err != "" {
			continue
		}
		s := byTag[r.RPC]
		if s == nil {
			continue
		}
		w.Stat("raw_handler_msgs_checked", 1)
		// the handler saw the unwrapped payload; recompute the marshalled form's checksum
		want := wrapBytes(GenPayload(r.RPC, dirReq, r.MsgIdx, r.GotSize))
		ok := false
		if r.GotOK {
			for id, list := range sent {
				_ = id
				for _, m := range list {
					if m.size == len(want) && m.sum == sum64(want) {
						ok = true
					}
				}
			}
		} else {
			// not one of the generated payloads: accept only if some complete sent message has exactly this size (e.g. retargeted data)
			for _, list := range sent {
				for _, m := range list {
					if m.size >= r.GotSize && m.size <= r.GotSize+6 {
						ok = true
					}
				}
			}
		}
		if !ok {
			w.Violate("C09", "handler-shown-unsent-message", "handler %s received message #%d (%d bytes, matches generated payload: %v) that was never completely and exactly sent on the wire", r.RPC, r.MsgIdx, r.GotSize, r.GotOK)
		}
	}
}

func sortedKeys(m map[string]int) []string {
	ks := make([]string, 0, len(m))
	for k := range m {
		ks = append(ks, k)
	}
	sort.Strings(ks)
	return ks
}
