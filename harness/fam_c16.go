package h

// C16: call shapes. Raw clients send 0, 1, 2, many request messages (the
// second split across chunks; before / after half-close) for each of the four
// shapes; applications issue second sends on non-streaming sides. The client
// side (0 / >=2 responses) is exercised by the rawsrv family.

import (
	"context"
	"fmt"
	"math/rand"
	"time"

	"google.golang.org/grpc/codes"

	"github.com/jhump/grpctunnel/tunnelpb"
)

func init() {
	families["shape16"] = famShape16
	families["appsend16"] = famAppSend16
	listers["C16"] = func(tier string, seed int64) []Case {
		var out []Case
		rng := rand.New(rand.NewSource(seed*911 + 16))
		reps := 2
		if tier == "thorough" {
			reps = 100
		}
		for r := 0; r < reps; r++ {
			for _, shape := range srvShapes {
				for _, n := range []int{0, 1, 2, 3, 6} {
					for _, half := range []string{"end", "after-first", "none-cancel", "none"} {
						for _, dir := range []string{"forward", "reverse"} {
							for _, burst := range []int{0, 1} {
								out = append(out, Case{Family: "shape16", Seed: rng.Int63(), Cfg: WorldCfg{Dir: dir}, P: map[string]int{"n": n, "burst": burst}, S: map[string]string{"shape": shape, "half": half}})
							}
						}
					}
				}
			}
			for _, dir := range allDirs {
				for _, fc := range []bool{true, false} {
					cfg := WorldCfg{Dir: dir}
					if !fc {
						cfg.ClientNoFC, cfg.ServerNoFC = true, true
					}
					for _, extra := range []int{1, 2, 3, 5} {
						out = append(out, Case{Family: "appsend16", Seed: rng.Int63(), Cfg: cfg, P: map[string]int{"extra": extra}})
					}
				}
			}
		}
		for _, c := range listers["C09"](tier, seed) {
			if c.Family == "rawsrv" {
				switch c.S["dev"] {
				case "no-response", "two-responses", "dup-msg", "drop-msg-first", "drop-msg-cont", "size-plus1", "none", "close-error":
					out = append(out, c)
				}
			}
		}
		return out
	}
}

func famShape16(w *World, c *Case, rng *rand.Rand) {
	shape, half, n := c.s("shape", "Unary"), c.s("half", "end"), c.p("n", 2)
	w.SigExtra = fmt.Sprintf("%s/%s/%d", shape, half, n)
	w.Wire.JudgeClient = false
	w.Window.JudgeClient = false
	rc, err := w.OpenRawClient(true, false)
	if err != nil {
		w.Violate("C09", "raw-open-failed", "raw client could not open the tunnel: %v", err)
		w.Finish()
		return
	}
	w.Wait()
	clientStreaming := shape == "ClientStream" || shape == "Bidi"
	var hops []Op
	if clientStreaming {
		hops = []Op{{K: "recvall"}, {K: "send", N: 5}, {K: "ret"}}
	} else {
		// a handler that tries to read more than once, as a buggy application might
		hops = []Op{{K: "recv"}, {K: "recv"}, {K: "recv"}, {K: "send", N: 5}, {K: "ret"}}
	}
	w.Env.registerSpec(&RPCSpec{ID: "v", Method: shape, Handler: hops})
	var frames []*tunnelpb.ClientToServer
	frames = append(frames, fNew(0, "verif.Svc/"+shape, "v", 1, 65536))
	sizes := []int{10, 20000, 3, 16384, 0, 7}
	for i := 0; i < n; i++ {
		frames = append(frames, msgFramesC2S(0, wrapBytes(GenPayload("v", dirReq, i, sizes[i%len(sizes)])), 16384)...)
		if i == 0 && half == "after-first" {
			frames = append(frames, fHalf(0))
		}
	}
	switch half {
	case "end":
		frames = append(frames, fHalf(0))
	case "after-first":
		if n == 0 {
			frames = append(frames, fHalf(0))
		}
	case "none-cancel":
		frames = append(frames, fCancel(0))
	}
	burst := c.p("burst", 0) == 1
	for _, f := range frames {
		_ = rc.Send(f)
		if !burst {
			w.Wait()
		}
	}
	w.Advance(time.Second)
	views, recvDone, _ := rc.Snapshot()
	v := views[0]
	w.Stat("shape16_runs", 1)
	okRecvs, invs := 0, 0
	for _, r := range w.Env.Log.Records() {
		if r.RPC == "v" && r.Side == "handler" && r.K == "recv" && r.RetSeq != 0 && r.Err == "" {
			okRecvs++
			if !r.GotOK {
				w.Violate("C01", "wrong-bytes:request", "handler of %s received a message that was never sent", shape)
			}
		}
	}
	for _, inv := range w.Env.Log.Invocations {
		if inv.RPC == "v" {
			invs++
		}
	}
	if invs > 1 {
		w.Violate("C16", "handler-invoked-twice", "%s with %d request messages: handler invoked %d times", shape, n, invs)
	}
	beforeHalf := n
	if half == "after-first" && n > 1 {
		beforeHalf = 1
	}
	if !clientStreaming {
		w.Stat("shape16_non_streaming_checked", 1)
		if okRecvs > 1 {
			w.Violate("C16", "handler-observed-second-request", "%s handler (non-streaming request) observed %d request messages (%d sent, half-close %s)", shape, okRecvs, n, half)
		}
		if beforeHalf >= 2 && (half == "end" || half == "after-first") {
			w.Stat("shape16_two_requests_cases", 1)
			if okRecvs != 0 {
				w.Violate("C16", "handler-observed-request-of-over-long-stream", "%s: %d request messages were sent before the half-close but the handler was shown %d", shape, beforeHalf, okRecvs)
			}
			if v.Closes != 1 || codes.Code(v.Close.GetStatus().GetCode()) != codes.InvalidArgument {
				code := "none"
				if v.Close != nil {
					code = codes.Code(v.Close.GetStatus().GetCode()).String()
				}
				w.Violate("C16", "two-requests-not-invalid-argument", "%s: %d request messages before the half-close: RPC ended with %s (closes=%d), want InvalidArgument", shape, beforeHalf, code, v.Closes)
			}
		}
	} else if half == "end" {
		if okRecvs != n {
			w.Violate("C01", "lost-message:request", "%s: %d request messages sent, handler received %d", shape, n, okRecvs)
		}
		if v.Closes != 1 || v.Close.GetStatus().GetCode() != 0 {
			w.Violate("C16", "streaming-request-rejected", "%s with %d request messages did not complete normally", shape, n)
		}
	}
	if recvDone {
		w.Violate("C03", "raw-deviation-killed-tunnel", "request sequence %s ended the tunnel", w.SigExtra)
	}
	rc.Hangup()
	w.Advance(time.Second)
	for _, r := range w.Env.Log.OpenOps() {
		w.Violate("C09", "handler-op-open-after-hangup", "%s: handler op %s still blocked after hang-up", w.SigExtra, r.K)
	}
	w.Finish()
}

// famAppSend16: applications issue a second send on a non-streaming side.
func famAppSend16(w *World, c *Case, rng *rand.Rand) {
	if err := w.Open(nil); err != nil {
		w.Violate("C11", "open-failed", "open: %v", err)
		w.Finish()
		return
	}
	// every send after the first one on a non-streaming side must be refused: the second, and the
	// third, fourth ... as well (1 + extra sends in total)
	extra := c.p("extra", 1)
	more := func(first Op) []Op {
		out := []Op{first}
		for i := 0; i < extra; i++ {
			out = append(out, Op{K: "send", N: []int{20000, 11, 0, 70000, 5}[i%5]})
		}
		return out
	}
	specs := []*RPCSpec{
		// caller: further SendMsg calls on a server-streaming (non-client-streaming) method
		{ID: "c2", Method: "ServerStream", Client: append(append([]Op{{K: "open"}}, more(Op{K: "send", N: 10})...), Op{K: "close"}, Op{K: "recvall"}),
			Handler: []Op{{K: "recv"}, {K: "send", N: 5}, {K: "ret"}}},
		// caller: unary method through the stream API
		{ID: "c3", Method: "Unary", Client: append(append([]Op{{K: "open"}}, more(Op{K: "send", N: 10})...), Op{K: "close"}, Op{K: "recvall"}),
			Handler: []Op{{K: "recv"}, {K: "send", N: 5}, {K: "ret"}}},
		// handler: further SendMsg calls on a client-streaming (non-server-streaming) method
		{ID: "h2", Method: "ClientStream", Client: []Op{{K: "open"}, {K: "send", N: 10}, {K: "close"}, {K: "recvall"}},
			Handler: append(append([]Op{{K: "recvall"}}, more(Op{K: "send", N: 5})...), Op{K: "ret"})},
	}
	// handler: a second send after a first one that FAILED half-way (it parked on the caller's
	// window - the caller reads late - and the deadline only the serving side knows expired); by the
	// time of the second send the caller has read and the window is open again
	specs = append(specs, &RPCSpec{ID: "h3", Method: "ClientStream", GrpcTimeout: "50m",
		Client:  []Op{{K: "open"}, {K: "send", N: 10}, {K: "close"}, {K: "sync", Name: "read16"}, {K: "recvall"}},
		Handler: []Op{{K: "recvall"}, {K: "send", N: 100000}, {K: "sync", Name: "again16"}, {K: "send", N: 10}, {K: "ret"}}})
	for _, s := range specs {
		w.Env.StartRPC(context.Background(), w.Ch, s)
	}
	w.Advance(200 * time.Millisecond)
	w.Env.Signal("read16")
	w.Advance(100 * time.Millisecond)
	w.Env.Signal("again16")
	w.Advance(time.Minute)
	w.Stat("appsend16_runs", 1)
	views := buildViews(w.Env)
	check := func(id, side string) {
		v := views[id]
		sends := v.cliSends
		if side == "handler" {
			sends = v.hdlSends
		}
		if len(sends) < 2 {
			w.Violate("C16", "script-did-not-run", "rpc %s: only %d sends executed", id, len(sends))
			return
		}
		w.Stat("appsend16_second_sends", 1)
		for i := 1; i < len(sends); i++ {
			if sends[i].RetSeq == 0 || sends[i].Err == "" {
				w.Violate("C16", "second-send-accepted", "rpc %s: the %s's send #%d on a non-streaming side returned nil", id, side, i+1)
			}
		}
		// nothing of it on the wire
		if l, sid, ok := w.Wire.StreamByTag(id); ok {
			w.Tap.mu.Lock()
			st := w.Wire.links[l].streams[sid]
			msgs := st.reqMsgs
			if side == "handler" {
				msgs = st.respMsgs
			}
			w.Tap.mu.Unlock()
			if msgs != 1 {
				w.Violate("C16", "second-send-on-the-wire", "rpc %s: %d message envelopes from the %s reached the wire", id, msgs, side)
			}
		}
	}
	check("c2", "client")
	check("c3", "client")
	check("h2", "handler")
	check("h3", "handler")
	if v := views["h3"]; v != nil && len(v.hdlSends) > 0 && v.hdlSends[0].Err != "" {
		w.Stat("appsend16_second_send_after_failed_first", 1)
	}
	for _, r := range w.Env.Log.OpenOps() {
		w.Violate("C05", "op-stuck-in-clean-run", "operation %s %s of rpc %s still blocked", r.Side, r.K, r.RPC)
	}
	w.Finish()
}
