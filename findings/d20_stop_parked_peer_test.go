package grpctunnel

import (
	"context"
	"net"
	"testing"
	"time"

	"github.com/fullstorydev/grpchan/grpchantesting"
	"github.com/jhump/grpctunnel/internal"
	"google.golang.org/grpc"
	"google.golang.org/grpc/credentials/insecure"

	"github.com/jhump/grpctunnel/tunnelpb"
)

// Witness for known finding D20 (property C04), run against the real code over a real
// loopback gRPC connection: reverse tunnel, revision zero (flow control disabled).
// Call A is a server-streaming RPC whose responses nobody reads, so the calling side's
// receive loop is parked handing A's second message to A's (full) receive queue.
// Then ReverseTunnelServer.Stop() is called: it half-closes the carrier stream and waits
// for the peer to hang up - but the peer's receive loop never gets to read the half-close,
// so Stop never returns, Serve never returns and neither end's Done() closes.
// Expected on the unchanged tree: this test FAILS (that is the finding).
func TestD20StopWithParkedPeerReceiveLoop(t *testing.T) {
	// ---- network server, flow control disabled => revision zero ----
	ts := NewTunnelServiceHandler(TunnelServiceHandlerOptions{DisableFlowControl: true})
	l, err := net.Listen("tcp", "127.0.0.1:0")
	if err != nil {
		t.Fatalf("listen: %v", err)
	}
	gs := grpc.NewServer()
	tunnelpb.RegisterTunnelServiceServer(gs, ts.Service())
	go func() { _ = gs.Serve(l) }()
	defer gs.Stop()

	cc, err := internal.BlockingDial(context.Background(), l.Addr().String(), grpc.WithTransportCredentials(insecure.NewCredentials()))
	if err != nil {
		t.Fatalf("dial: %v", err)
	}
	defer cc.Close()

	// ---- reverse tunnel server (the "client" process) ----
	revSvr := NewReverseTunnelServer(tunnelpb.NewTunnelServiceClient(cc))
	grpchantesting.RegisterTestServiceServer(revSvr, &grpchantesting.TestServer{})
	tunnelCtx, cancelTunnel := context.WithCancel(context.Background())
	defer cancelTunnel()
	serveDone := make(chan error, 1)
	go func() {
		_, err := revSvr.Serve(tunnelCtx)
		serveDone <- err
	}()

	rch := ts.AsChannel()
	readyCtx, cancelReady := context.WithTimeout(context.Background(), 5*time.Second)
	defer cancelReady()
	if err := rch.WaitForReady(readyCtx); err != nil {
		t.Fatalf("reverse tunnel never became ready: %v", err)
	}
	tunnels := ts.AllReverseTunnels()
	if len(tunnels) != 1 {
		t.Fatalf("expected 1 reverse tunnel, got %d", len(tunnels))
	}
	tc := tunnels[0]

	// The calls use their own contexts, which are NOT cancelled until the
	// test is over: only the tunnel's termination may end them.
	callCtx, cancelCalls := context.WithCancel(context.Background())
	defer cancelCalls()

	// ---- call A: server stream with 5 responses, never read ----
	csA, err := rch.NewStream(callCtx,
		&grpc.StreamDesc{StreamName: "ServerStream", ServerStreams: true},
		"/grpchantesting.TestService/ServerStream")
	if err != nil {
		t.Fatalf("A: NewStream: %v", err)
	}
	if err := csA.SendMsg(&grpchantesting.Message{Count: 5, Payload: []byte("abc")}); err != nil {
		t.Fatalf("A: SendMsg: %v", err)
	}
	if err := csA.CloseSend(); err != nil {
		t.Fatalf("A: CloseSend: %v", err)
	}
	stA := csA.(*tunnelClientStream)
	if stA.ch.useRevision != tunnelpb.ProtocolRevision_REVISION_ZERO {
		t.Fatalf("expected revision zero, got %v", stA.ch.useRevision)
	}
	rcvA := stA.receiver.(*noFlowControlReceiver[tunnelpb.ServerToClientFrame])
	// Wait until the receive loop is parked in accept() for A: one message is
	// buffered and the ingest lock is held by the parked accept.
	parked := false
	for deadline := time.Now().Add(5 * time.Second); time.Now().Before(deadline); time.Sleep(10 * time.Millisecond) {
		if len(rcvA.ch) != 1 {
			continue
		}
		if rcvA.ingestMu.TryLock() {
			rcvA.ingestMu.Unlock()
			continue
		}
		// make sure it is not just passing through
		time.Sleep(50 * time.Millisecond)
		if len(rcvA.ch) == 1 && !rcvA.ingestMu.TryLock() {
			parked = true
			break
		}
	}
	if !parked {
		t.Fatalf("receive loop never parked on call A")
	}

	// ---- Stop the reverse tunnel server ----
	stopDone := make(chan struct{})
	go func() { revSvr.Stop(); close(stopDone) }()
	select {
	case <-stopDone:
	case <-time.After(5 * time.Second):
		t.Errorf("ReverseTunnelServer.Stop() has not returned after 5s (the peer's receive loop is parked on an unread revision-zero stream)")
	}
	select {
	case <-serveDone:
	case <-time.After(time.Second):
		t.Errorf("ReverseTunnelServer.Serve has not returned")
	}
	select {
	case <-tc.Done():
	case <-time.After(time.Second):
		t.Errorf("reverse tunnel channel: Done() not closed after Stop")
	}
	// release everything so the test process can end
	cancelCalls()
	cancelTunnel()
}
