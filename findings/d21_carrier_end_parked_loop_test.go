package grpctunnel

import (
	"context"
	"net"
	"testing"
	"time"

	"github.com/fullstorydev/grpchan/grpchantesting"
	"github.com/jhump/grpctunnel/internal"
	"google.golang.org/grpc"
	"google.golang.org/grpc/credentials/insecure"

	"github.com/jhump/grpctunnel/tunnelpb"
)

// Witness for defect D21 (property C04), over a real loopback gRPC connection: FORWARD tunnel,
// revision zero (flow control disabled). Call A is a server-streaming RPC whose responses nobody
// reads, so the channel's receive loop is parked handing A's second message to A's (full) queue.
// Call B is blocked in Recv. Then the context that opened the tunnel is cancelled (nobody calls
// Close). Every in-flight call must return a non-OK result; before the fix B hung for ever.
func TestD21CarrierEndsWhileReceiveLoopParked(t *testing.T) {
	// ---- network server with the test service, flow control disabled => revision zero ----
	ts := NewTunnelServiceHandler(TunnelServiceHandlerOptions{DisableFlowControl: true})
	grpchantesting.RegisterTestServiceServer(ts, &grpchantesting.TestServer{})
	l, err := net.Listen("tcp", "127.0.0.1:0")
	if err != nil {
		t.Fatalf("listen: %v", err)
	}
	gs := grpc.NewServer()
	tunnelpb.RegisterTunnelServiceServer(gs, ts.Service())
	go func() { _ = gs.Serve(l) }()
	defer gs.Stop()

	cc, err := internal.BlockingDial(context.Background(), l.Addr().String(), grpc.WithTransportCredentials(insecure.NewCredentials()))
	if err != nil {
		t.Fatalf("dial: %v", err)
	}
	defer cc.Close()

	tunnelCtx, cancelTunnel := context.WithCancel(context.Background())
	defer cancelTunnel()
	tc, err := NewChannel(tunnelpb.NewTunnelServiceClient(cc), WithDisableFlowControl()).Start(tunnelCtx)
	if err != nil {
		t.Fatalf("Start: %v", err)
	}
	rch := tc

	// The calls use their own contexts, which are NOT cancelled until the
	// test is over: only the tunnel's termination may end them.
	callCtx, cancelCalls := context.WithCancel(context.Background())
	defer cancelCalls()

	// ---- call A: server stream with 5 responses, never read ----
	csA, err := rch.NewStream(callCtx,
		&grpc.StreamDesc{StreamName: "ServerStream", ServerStreams: true},
		"/grpchantesting.TestService/ServerStream")
	if err != nil {
		t.Fatalf("A: NewStream: %v", err)
	}
	if err := csA.SendMsg(&grpchantesting.Message{Count: 5, Payload: []byte("abc")}); err != nil {
		t.Fatalf("A: SendMsg: %v", err)
	}
	if err := csA.CloseSend(); err != nil {
		t.Fatalf("A: CloseSend: %v", err)
	}
	stA := csA.(*tunnelClientStream)
	if stA.ch.useRevision != tunnelpb.ProtocolRevision_REVISION_ZERO {
		t.Fatalf("expected revision zero, got %v", stA.ch.useRevision)
	}
	rcvA := stA.receiver.(*noFlowControlReceiver[tunnelpb.ServerToClientFrame])
	// Wait until the receive loop is parked in accept() for A: one message is
	// buffered and the ingest lock is held by the parked accept.
	parked := false
	for deadline := time.Now().Add(5 * time.Second); time.Now().Before(deadline); time.Sleep(10 * time.Millisecond) {
		if len(rcvA.ch) != 1 {
			continue
		}
		if rcvA.ingestMu.TryLock() {
			rcvA.ingestMu.Unlock()
			continue
		}
		// make sure it is not just passing through
		time.Sleep(50 * time.Millisecond)
		if len(rcvA.ch) == 1 && !rcvA.ingestMu.TryLock() {
			parked = true
			break
		}
	}
	if !parked {
		t.Fatalf("receive loop never parked on call A")
	}

	// ---- call B: bidi stream blocked waiting for a response ----
	stub := grpchantesting.NewTestServiceClient(rch)
	csB, err := stub.BidiStream(callCtx)
	if err != nil {
		t.Fatalf("B: BidiStream: %v", err)
	}
	bDone := make(chan error, 1)
	go func() {
		_, err := csB.Recv()
		bDone <- err
	}()
	time.Sleep(100 * time.Millisecond) // let B reach the other end and block

	// ---- terminate the tunnel: cancel the context that opened it ----
	cancelTunnel()

	select {
	case <-tc.Done():
	case <-time.After(5 * time.Second):
		t.Errorf("tunnel channel: Done() not closed after the tunnel was cancelled")
	}
	if tc.Err() == nil {
		t.Errorf("tunnel channel: Err() is nil after an abnormal termination")
	}

	// in-flight call B must end with a non-OK result
	select {
	case err := <-bDone:
		if err == nil {
			t.Errorf("B: Recv returned a message / nil error after the tunnel ended")
		} else {
			t.Logf("B ended with: %v", err)
		}
	case <-time.After(5 * time.Second):
		t.Errorf("in-flight call B still blocked in Recv 5s after the tunnel ended (hang)")
	}

	// in-flight call A must end too: at most the one buffered message, then an error
	aDone := make(chan error, 1)
	go func() {
		var err error
		for i := 0; i < 10 && err == nil; i++ {
			err = csA.RecvMsg(&grpchantesting.Message{})
		}
		aDone <- err
	}()
	select {
	case err := <-aDone:
		if err == nil {
			t.Errorf("A: kept returning messages after the tunnel ended")
		} else {
			t.Logf("A ended with: %v", err)
		}
	case <-time.After(5 * time.Second):
		t.Errorf("in-flight call A still blocked in RecvMsg 5s after the tunnel ended (hang)")
	}

	// a call started afterwards must fail immediately
	lateDone := make(chan error, 1)
	go func() {
		lateCtx, cancel := context.WithTimeout(context.Background(), 3*time.Second)
		defer cancel()
		lateDone <- tc.Invoke(lateCtx, "/grpchantesting.TestService/Unary", &grpchantesting.Message{}, &grpchantesting.Message{})
	}()
	select {
	case err := <-lateDone:
		if err == nil {
			t.Errorf("late call succeeded on a dead tunnel")
		}
	case <-time.After(5 * time.Second):
		t.Errorf("late call hangs on a dead tunnel")
	}
}
