package grpctunnel

import (
	"context"
	"io"
	"testing"
	"time"

	"google.golang.org/grpc"
	"google.golang.org/protobuf/proto"
	"google.golang.org/protobuf/types/known/wrapperspb"

	"github.com/jhump/grpctunnel/tunnelpb"
)

// Witness for defect D24 (property C09, the caller's-side mirror of D23), against the real tunnel
// client over a hand-written carrier stream. The peer answers a server-streaming call with one
// complete response message, the first 16 KiB chunk of a second one (announced size 100000), and
// then a close frame with status OK. Before the fix the caller's RecvMsg returned io.EOF after
// the first message: a normal end of the responses although the second message had been cut
// short - a malformed frame sequence reported as success.
type d24Carrier struct {
	ctx        context.Context
	toClient   chan *tunnelpb.ServerToClient
	fromClient chan *tunnelpb.ClientToServer
}

func (c *d24Carrier) Context() context.Context { return c.ctx }
func (c *d24Carrier) CloseSend() error          { return nil }
func (c *d24Carrier) Send(m *tunnelpb.ClientToServer) error {
	select {
	case c.fromClient <- m:
		return nil
	case <-c.ctx.Done():
		return c.ctx.Err()
	}
}
func (c *d24Carrier) Recv() (*tunnelpb.ServerToClient, error) {
	select {
	case m := <-c.toClient:
		return m, nil
	case <-c.ctx.Done():
		return nil, c.ctx.Err()
	}
}

func TestD24CloseInTheMiddleOfAMessage(t *testing.T) {
	ctx, cancel := context.WithCancel(context.Background())
	defer cancel()
	carrier := &d24Carrier{ctx: ctx, toClient: make(chan *tunnelpb.ServerToClient, 64), fromClient: make(chan *tunnelpb.ClientToServer, 64)}
	carrier.toClient <- &tunnelpb.ServerToClient{StreamId: -1, Frame: &tunnelpb.ServerToClient_Settings{Settings: &tunnelpb.Settings{
		InitialWindowSize:          65536,
		SupportedProtocolRevisions: []tunnelpb.ProtocolRevision{tunnelpb.ProtocolRevision_REVISION_ZERO, tunnelpb.ProtocolRevision_REVISION_ONE},
	}}}
	ch := newTunnelChannel(carrier, nil, true, &tunnelOpts{}, nil)
	defer ch.Close()
	stream, err := ch.NewStream(ctx, &grpc.StreamDesc{StreamName: "Download", ServerStreams: true}, "/d24.Svc/Download")
	if err != nil {
		t.Fatal(err)
	}
	if err := stream.SendMsg(wrapperspb.Bytes([]byte("request"))); err != nil {
		t.Fatal(err)
	}
	if err := stream.CloseSend(); err != nil {
		t.Fatal(err)
	}
	var id int64
	select {
	case f := <-carrier.fromClient:
		id = f.StreamId
	case <-time.After(5 * time.Second):
		t.Fatal("no new_stream frame")
	}
	msg1, _ := proto.Marshal(wrapperspb.Bytes(make([]byte, 1000)))
	carrier.toClient <- &tunnelpb.ServerToClient{StreamId: id, Frame: &tunnelpb.ServerToClient_ResponseMessage{ResponseMessage: &tunnelpb.MessageData{Size: uint32(len(msg1)), Data: msg1}}}
	carrier.toClient <- &tunnelpb.ServerToClient{StreamId: id, Frame: &tunnelpb.ServerToClient_ResponseMessage{ResponseMessage: &tunnelpb.MessageData{Size: 100000, Data: make([]byte, 16384)}}}
	carrier.toClient <- &tunnelpb.ServerToClient{StreamId: id, Frame: &tunnelpb.ServerToClient_CloseStream{CloseStream: &tunnelpb.CloseStream{}}}
	n := 0
	for {
		var m wrapperspb.BytesValue
		err := stream.RecvMsg(&m)
		if err == nil {
			n++
			continue
		}
		if err == io.EOF {
			t.Errorf("the caller was told io.EOF (normal end of the responses) after %d message(s) although the stream was closed in the middle of the next message", n)
		} else {
			t.Logf("caller: %d message(s), then %v", n, err)
		}
		return
	}
}
