package grpctunnel

import (
	"context"
	"net"
	"testing"
	"time"

	"github.com/jhump/grpctunnel/internal"
	"google.golang.org/grpc"
	"google.golang.org/grpc/credentials/insecure"

	"github.com/jhump/grpctunnel/tunnelpb"
)

// Witness for defect D22 (property C12), against the real code over a real loopback gRPC
// connection. One reverse tunnel is open; the client side ends it by cancelling the context it
// passed to Serve. The handler's OnReverseTunnelClose callback - the place where an application
// does fail-over - asks the registry whether any tunnel is left. Before the fix the callback ran
// before the tunnel had been removed from the registry (the removal was left to deferred calls
// that run after it), so Ready() was still true and AllReverseTunnels still listed the dead
// tunnel, and an RPC issued from the callback would have been routed to it.
func TestD22CloseCallbackSeesDeadTunnelInRegistry(t *testing.T) {
	type seen struct {
		ready bool
		n     int
	}
	got := make(chan seen, 1)
	var ts *TunnelServiceHandler
	ts = NewTunnelServiceHandler(TunnelServiceHandlerOptions{
		OnReverseTunnelClose: func(ch TunnelChannel) {
			got <- seen{ready: ts.AsChannel().Ready(), n: len(ts.AllReverseTunnels())}
		},
	})
	l, err := net.Listen("tcp", "127.0.0.1:0")
	if err != nil {
		t.Fatal(err)
	}
	gs := grpc.NewServer()
	tunnelpb.RegisterTunnelServiceServer(gs, ts.Service())
	go func() { _ = gs.Serve(l) }()
	defer gs.Stop()
	cc, err := internal.BlockingDial(context.Background(), l.Addr().String(), grpc.WithTransportCredentials(insecure.NewCredentials()))
	if err != nil {
		t.Fatal(err)
	}
	defer cc.Close()
	revSvr := NewReverseTunnelServer(tunnelpb.NewTunnelServiceClient(cc))
	ctx, cancel := context.WithCancel(context.Background())
	defer cancel()
	go func() { _, _ = revSvr.Serve(ctx) }()
	readyCtx, cancelReady := context.WithTimeout(context.Background(), 5*time.Second)
	defer cancelReady()
	if err := ts.AsChannel().WaitForReady(readyCtx); err != nil {
		t.Fatal(err)
	}
	cancel() // the client side ends the tunnel
	select {
	case s := <-got:
		if s.ready || s.n != 0 {
			t.Errorf("inside OnReverseTunnelClose of the only tunnel: AsChannel().Ready() = %v, AllReverseTunnels() has %d entries; want false and 0", s.ready, s.n)
		}
	case <-time.After(5 * time.Second):
		t.Fatal("close callback never ran")
	}
}
