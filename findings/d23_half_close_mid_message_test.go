package grpctunnel

import (
	"context"
	"io"
	"testing"
	"time"

	"google.golang.org/grpc"
	"google.golang.org/protobuf/proto"
	"google.golang.org/protobuf/types/known/emptypb"
	"google.golang.org/protobuf/types/known/wrapperspb"

	"github.com/jhump/grpctunnel/tunnelpb"
)

// Witness for defect D23 (property C01), against the real tunnel server over a hand-written
// carrier stream. The peer sends one complete request message, the first 16 KiB chunk of a second
// one (announced size 100000), and then a half-close - the frame sequence the library's own client
// produces when SendMsg fails half-way through a message on a cancellation and the application's
// deferred CloseSend gets onto the carrier before the (detached) cancel frame. Before the fix the
// handler was told io.EOF after the first message: a clean end of the request stream although the
// second message had been cut short, so an upload handler would commit a truncated upload of an
// RPC its caller had cancelled.
type d23Stream struct {
	ctx context.Context
	in  chan *tunnelpb.ClientToServer
	out chan *tunnelpb.ServerToClient
}

func (s *d23Stream) Context() context.Context { return s.ctx }
func (s *d23Stream) Send(m *tunnelpb.ServerToClient) error {
	select {
	case s.out <- m:
		return nil
	case <-s.ctx.Done():
		return s.ctx.Err()
	}
}
func (s *d23Stream) Recv() (*tunnelpb.ClientToServer, error) {
	select {
	case m, ok := <-s.in:
		if !ok {
			return nil, io.EOF
		}
		return m, nil
	case <-s.ctx.Done():
		return nil, s.ctx.Err()
	}
}

func TestD23HalfCloseInTheMiddleOfAMessage(t *testing.T) {
	type result struct {
		msgs int
		err  error
	}
	got := make(chan result, 1)
	desc := &grpc.ServiceDesc{ServiceName: "d23.Svc", HandlerType: (*interface{})(nil),
		Streams: []grpc.StreamDesc{{StreamName: "Upload", ClientStreams: true, Handler: func(srv interface{}, ss grpc.ServerStream) error {
			n := 0
			for {
				var m wrapperspb.BytesValue
				if err := ss.RecvMsg(&m); err != nil {
					got <- result{n, err}
					if err == io.EOF {
						return ss.SendMsg(&emptypb.Empty{})
					}
					return err
				}
				n++
			}
		}}}}
	ctx, cancel := context.WithCancel(context.Background())
	defer cancel()
	stream := &d23Stream{ctx: ctx, in: make(chan *tunnelpb.ClientToServer, 16), out: make(chan *tunnelpb.ServerToClient, 64)}
	reg := NewTunnelServiceHandler(TunnelServiceHandlerOptions{})
	reg.RegisterService(desc, struct{}{})
	go func() {
		_ = serveTunnel(stream, nil, true, &tunnelOpts{}, reg.handlers, func() bool { return false })
	}()
	msg1, _ := proto.Marshal(wrapperspb.Bytes(make([]byte, 1000)))
	stream.in <- &tunnelpb.ClientToServer{StreamId: 1, Frame: &tunnelpb.ClientToServer_NewStream{NewStream: &tunnelpb.NewStream{MethodName: "d23.Svc/Upload", ProtocolRevision: tunnelpb.ProtocolRevision_REVISION_ONE, InitialWindowSize: 65536}}}
	stream.in <- &tunnelpb.ClientToServer{StreamId: 1, Frame: &tunnelpb.ClientToServer_RequestMessage{RequestMessage: &tunnelpb.MessageData{Size: uint32(len(msg1)), Data: msg1}}}
	stream.in <- &tunnelpb.ClientToServer{StreamId: 1, Frame: &tunnelpb.ClientToServer_RequestMessage{RequestMessage: &tunnelpb.MessageData{Size: 100000, Data: make([]byte, 16384)}}}
	stream.in <- &tunnelpb.ClientToServer{StreamId: 1, Frame: &tunnelpb.ClientToServer_HalfClose{}}
	select {
	case r := <-got:
		if r.err == io.EOF {
			t.Errorf("the handler was told io.EOF (normal end of the request stream) after %d message(s) although the stream was half-closed in the middle of the next message", r.msgs)
		} else {
			t.Logf("handler: %d message(s), then %v", r.msgs, r.err)
		}
	case <-time.After(5 * time.Second):
		t.Fatal("handler never finished reading")
	}
}
