package grpctunnel

import (
	"context"
	"net"
	"testing"
	"time"

	"github.com/jhump/grpctunnel/internal"
	"google.golang.org/grpc"
	"google.golang.org/grpc/credentials/insecure"
	"google.golang.org/protobuf/types/known/wrapperspb"

	"github.com/jhump/grpctunnel/tunnelpb"
)

// Witness for known finding D20 (property C04), serving-side variant, against the real code over a
// real loopback gRPC connection: REVERSE tunnel, revision zero (flow control disabled). A
// client-streaming call sends four small requests to a handler that does not read (it waits for
// its context), so the SERVING side's receive loop is parked handing the second request to the
// stream's (full) queue. Then the calling side (the network server) closes the reverse channel cleanly: the
// end of the carrier is in-band behind the parked frame, so the serving side never observes the end - the
// handler's context is never cancelled and ReverseTunnelServer.Serve never returns.
// Expected on the unchanged tree: this test FAILS (that is the finding).
func TestD20bCleanCloseWithParkedServingLoop(t *testing.T) {
	handlerCtxDone := make(chan struct{})
	desc := &grpc.ServiceDesc{
		ServiceName: "d20b.Svc", HandlerType: (*interface{})(nil),
		Streams: []grpc.StreamDesc{{StreamName: "Up", ClientStreams: true, Handler: func(srv interface{}, ss grpc.ServerStream) error {
			<-ss.Context().Done() // never reads its requests
			close(handlerCtxDone)
			return ss.Context().Err()
		}}},
	}
	ts := NewTunnelServiceHandler(TunnelServiceHandlerOptions{DisableFlowControl: true})
	l, err := net.Listen("tcp", "127.0.0.1:0")
	if err != nil {
		t.Fatal(err)
	}
	gs := grpc.NewServer()
	tunnelpb.RegisterTunnelServiceServer(gs, ts.Service())
	go func() { _ = gs.Serve(l) }()
	defer gs.Stop()
	cc, err := internal.BlockingDial(context.Background(), l.Addr().String(), grpc.WithTransportCredentials(insecure.NewCredentials()))
	if err != nil {
		t.Fatal(err)
	}
	defer cc.Close()
	revSvr := NewReverseTunnelServer(tunnelpb.NewTunnelServiceClient(cc), WithDisableFlowControl())
	revSvr.RegisterService(desc, struct{}{})
	served := make(chan struct{})
	serveCtx, cancelServe := context.WithCancel(context.Background())
	defer cancelServe()
	go func() { _, _ = revSvr.Serve(serveCtx); close(served) }()
	readyCtx, cancelReady := context.WithTimeout(context.Background(), 5*time.Second)
	defer cancelReady()
	if err := ts.AsChannel().WaitForReady(readyCtx); err != nil {
		t.Fatal(err)
	}
	ch := ts.AllReverseTunnels()[0]
	cs, err := ch.NewStream(context.Background(), &grpc.StreamDesc{StreamName: "Up", ClientStreams: true}, "/d20b.Svc/Up")
	if err != nil {
		t.Fatal(err)
	}
	for i := 0; i < 4; i++ {
		if err := cs.SendMsg(wrapperspb.String("request")); err != nil {
			t.Fatalf("send %d: %v", i, err)
		}
	}
	time.Sleep(300 * time.Millisecond) // the serving side's receive loop is now parked on the second request

	ch.Close()

	select {
	case <-handlerCtxDone:
	case <-time.After(5 * time.Second):
		t.Errorf("5s after a clean Close of the channel the handler's context has not been cancelled")
	}
	select {
	case <-served:
	case <-time.After(time.Second):
		t.Errorf("ReverseTunnelServer.Serve has not returned")
	}
}

