#!/usr/bin/env python3
"""After running all checks on the unchanged tree: every violation tag that a check saw but did not
judge (evidence: other_property_observations) must be a listed known finding - anything else is a
violation that no check reports, i.e. a family raising a tag whose owning check does not list the
family (or a harness bug). Development aid; prints the offending tags."""
import json, glob, os, sys
root = os.path.dirname(os.path.dirname(os.path.abspath(__file__)))
known = set((f['property'], f['key']) for f in json.load(open(os.path.join(root, 'known_findings.json')))['findings'] if f['status'] == 'known')
def find(o):
    if isinstance(o, dict):
        for k, v in o.items():
            if k == 'other_property_observations':
                return v
            r = find(v)
            if r is not None:
                return r
    return None
bad = {}
for f in sorted(glob.glob(os.path.join(root, 'evidence', 'C*.json'))):
    e = json.load(open(f))
    for tag, n in (find(e) or {}).items():
        prop, key = tag.split(':', 1)
        if (prop, key) not in known:
            bad.setdefault(tag, []).append(e['property_id'])
print("unjudged non-known tags:", bad)
sys.exit(1 if bad else 0)
