#!/bin/bash
# usage: selftest/run_corpus_scratch.sh <seed> [pattern]   (development tool)
# Like run_corpus.sh, but works on scratch copies (/tmp/cr-repo, /tmp/cr-verif) so that /repo and
# /verif/work stay free; VERIF_SEED=<seed> selects a different fixed case list than the one the
# changes were first tried against - a catch that depends on one lucky case shows up as a miss.
seed=${1:-2}; pat=${2:-*}
rm -rf /tmp/cr-repo /tmp/cr-verif
git clone -q /repo /tmp/cr-repo || exit 9
rsync -a --exclude work --exclude .build --exclude .git --exclude replays /verif/ /tmp/cr-verif/
cd /tmp/cr-verif || exit 9
for d in seeded/$pat/; do
  id=$(basename $d)
  [ -f $d/meta.json ] || continue
  prop=$(python3 -c "import json;print(json.load(open('$d/meta.json'))['property'])")
  git -C /tmp/cr-repo apply /tmp/cr-verif/$d/patch.diff || { echo "$id $prop patch-does-not-apply"; continue; }
  out=$(VERIF_REPO=/tmp/cr-repo VERIF_SEED=$seed VERIF_WORKERS=${VERIF_WORKERS:-4} timeout 3000 python3 run_check.py $prop quick 2>&1)
  rc=$?
  git -C /tmp/cr-repo checkout -q -- .
  key=$(echo "$out" | grep -m1 "^VIOLATION" | sed 's/.*replay=.*quick-//; s/\.json//' | cut -c1-70)
  echo "$id $prop exit=$rc $key"
done
rm -rf /tmp/cr-repo /tmp/cr-verif
echo done
