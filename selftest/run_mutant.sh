#!/bin/bash
# usage: selftest/run_mutant.sh <patch.diff> <check> [tier]   (development tool, not a registered check)
# applies the patch to /repo, runs the check, restores /repo. Expect exit 1.
set -u
patch=$(readlink -f "$1"); check=$2; tier=${3:-quick}
cd /repo || exit 9
if ! git diff --quiet; then echo "/repo has uncommitted changes"; exit 9; fi
git apply "$patch" || { echo "patch does not apply"; exit 9; }
cd /verif
cp evidence/$check.json /tmp/evidence-$check.bak 2>/dev/null
python3 run_check.py $check $tier > /tmp/mutant-$check.out 2>&1
rc=$?
cp /tmp/evidence-$check.bak evidence/$check.json 2>/dev/null
git -C /repo checkout -- .
grep -E "^(VIOLATION|KNOWN-FINDING|INCONCLUSIVE|C[0-9]+ )" /tmp/mutant-$check.out | cut -c1-300 | head -12
echo "exit=$rc"
exit $rc
