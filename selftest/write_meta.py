#!/usr/bin/env python3
"""write_meta.py <id> <property> <change> <needs> <detected_by> <initially_missed:yes|no> [strengthened]"""
import json, sys
id_, prop, change, needs, det, missed = sys.argv[1:7]
st = sys.argv[7] if len(sys.argv) > 7 else ""
m = {
    "property": prop, "change": change, "needs": needs, "detected_by": det,
    "initially_missed": missed == "yes", "strengthened": st, "id": id_,
    "source": "sub-agent given only the property text, a list of earlier submissions to avoid, and a scratch worktree; nothing from /verif",
    "confirmed_by": "selftest/verify_seed.sh: fresh worktree of /repo HEAD; TestDemo passes without the patch (count=3), fails with it (count=3); existing suite (skip TestDemo) passes with it",
    "run_against_checks": "selftest/run_mutant.sh seeded/%s/patch.diff %s (apply to /repo, run the quick check, git checkout -- .)" % (id_, prop),
}
json.dump(m, open("/verif/seeded/%s/meta.json" % id_, "w"), indent=1)
