#!/bin/bash
# Development aid: every scenario family must be listed by at least one check (a wrap made in a file
# whose init runs before the base lister of a check is silently overwritten - see fam_zlate.go).
cd /verif/harness || exit 9
bad=0
for f in $(grep -ho 'families\["[a-z0-9]*"\]' *.go | sed 's/families\["//; s/"\]//' | sort -u); do
  tot=0
  for c in C01 C02 C03 C04 C05 C06 C07 C08 C09 C10 C11 C12 C13 C14 C15 C16 C17 C18; do
    VERIF_FAMILY=$f VERIF_CHECK=$c VERIF_TIER=quick VERIF_SEED=1 VERIF_LIST=1 VERIF_OUT=/tmp/af.json ../.build/h.test -test.run '^TestWorker$' >/dev/null 2>&1
    n=$(python3 -c "import json;print(json.load(open('/tmp/af.json'))['n'])" 2>/dev/null || echo 0)
    tot=$((tot+n))
  done
  echo "$f $tot"
  [ "$tot" = "0" ] && bad=1
done
exit $bad
