#!/bin/bash
# usage: selftest/run_mutants_all.sh   (development tool)
# Runs every hand-written mutant / reverse patch in selftest/mutants against the check(s) that are
# expected to report it (quick tier), in scratch copies (/tmp/ma-repo, /tmp/ma-verif).
# Prints one line per mutant: caught-by or MISSED.
declare -A want=(
 [m-deliv]="C01" [m-fc-chunk]="C06" [m-fc-credit-at]="C06 C05" [m-fc-credit-minus1]="C05" [m-fc-first]="C06" [m-fc-measure]="C05 C06"
 [m-fc-no-signal]="C05" [m-fc-receiver]="C06" [m-fc-store]="C05" [m-fc-unbuffered]="C05" [m-fc-wake]="C05" [m-id]="C08" [m-ident]="C17"
 [m-leak]="C14" [m-neg]="C11" [m-race]="C15" [m-reg]="C12" [m-shape]="C16" [m-shutdown]="C10" [m-term-close]="C04" [m-term-serve]="SKIP"
 [revert-fix-D1-]="C09" [revert-fix-D13]="C11" [revert-fix-D14]="C04" [revert-fix-D15]="C13" [revert-fix-D16]="C09 C14" [revert-fix-D17]="C13"
 [revert-fix-D18]="C01 C04" [revert-fix-D19]="C15" [revert-fix-D2-]="C09" [revert-fix-D21]="C04" [revert-fix-D22]="C12" [revert-fix-D23]="C01" [revert-fix-D24]="C09"
 [revert-fix-D4]="C02" [revert-fix-D5]="C02" [revert-fix-D7-and]="C01" [revert-fix-D7-fab]="SKIP" [revert-fix-D9]="C18"
)
rm -rf /tmp/ma-repo /tmp/ma-verif
git clone -q /repo /tmp/ma-repo || exit 9
rsync -a --exclude work --exclude .build --exclude .git --exclude replays /verif/ /tmp/ma-verif/
cd /tmp/ma-verif || exit 9
for f in selftest/mutants/*.diff; do
  b=$(basename $f .diff); checks=""
  best=0
  for k in "${!want[@]}"; do case $b in $k*) if [ ${#k} -gt $best ]; then best=${#k}; checks=${want[$k]}; fi;; esac; done
  [ "$checks" = "SKIP" ] && { echo "$b skipped (equivalent since a later fix: see DESIGN.md section 11)"; continue; }
  [ -z "$checks" ] && { echo "$b NO-MAPPING"; continue; }
  git -C /tmp/ma-repo apply /tmp/ma-verif/$f || { echo "$b patch-does-not-apply"; continue; }
  res=MISSED
  for c in $checks; do
    VERIF_REPO=/tmp/ma-repo VERIF_WORKERS=${VERIF_WORKERS:-6} timeout 3000 python3 run_check.py $c quick > /tmp/ma-out.txt 2>&1
    if [ $? -eq 1 ] && grep -q "^VIOLATION" /tmp/ma-out.txt; then res="caught by $c $(grep -m1 '^VIOLATION' /tmp/ma-out.txt | sed 's/.*quick-//; s/\.json//' | cut -c1-60)"; break; fi
  done
  git -C /tmp/ma-repo checkout -q -- .
  echo "$b $res"
done
rm -rf /tmp/ma-repo /tmp/ma-verif /tmp/ma-out.txt
echo done
