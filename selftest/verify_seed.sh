#!/bin/bash
# usage: selftest/verify_seed.sh <agent-worktree-dir> <seed-id> <property>
# 1. independently confirms the seeded change in a fresh scratch worktree of /repo:
#    demo passes without the patch, fails with it, existing suite passes with it;
# 2. stores it as /verif/seeded/<seed-id>/{patch.diff,zz_demo_test.go,NOTES.md}.
set -u
src=$1; id=$2; prop=$3
wt=/tmp/vs/$id
mkdir -p /tmp/vs
git -C /repo worktree remove --force $wt >/dev/null 2>&1
git -C /repo worktree add --detach $wt HEAD -q || exit 9
cp $src/zz_demo_test.go $wt/ || exit 9
cd $wt
echo "--- demo WITHOUT patch (expect ok)"
GOFLAGS=-mod=mod go test -vet=off -count=3 -timeout 10m -run 'TestDemo$' . 2>&1 | tail -3; r0=${PIPESTATUS[0]}
git apply $src/patch.diff || { echo "patch does not apply"; exit 9; }
echo "--- demo WITH patch (expect FAIL)"
GOFLAGS=-mod=mod go test -vet=off -count=3 -timeout 10m -run 'TestDemo$' . 2>&1 | tail -4; r1=${PIPESTATUS[0]}
echo "--- existing suite WITH patch (expect ok)"
GOFLAGS=-mod=mod go test -vet=off -count=1 -timeout 25m -skip 'TestDemo$' ./... 2>&1 | grep -v "no test files" | tail -3; r2=${PIPESTATUS[0]}
cd /verif
git -C /repo worktree remove --force $wt
echo "without=$r0 with=$r1 suite=$r2"
if [ $r0 -eq 0 ] && [ $r1 -ne 0 ] && [ $r2 -eq 0 ]; then
  mkdir -p seeded/$id
  cp $src/patch.diff $src/zz_demo_test.go seeded/$id/
  cp $src/NOTES.md seeded/$id/NOTES.md 2>/dev/null
  echo "CONFIRMED -> seeded/$id"
else
  echo "NOT CONFIRMED"
fi
