#!/bin/bash
# usage: selftest/run_corpus.sh [pattern]   (development tool)
# Runs every kept seeded change (seeded/<id>/patch.diff) against the quick check of its property,
# one after the other, patching /repo in place and restoring it each time. Prints one line per change.
cd /verif || exit 9
for d in seeded/${1:-*}/; do
  id=$(basename $d)
  [ -f $d/patch.diff ] || continue
  prop=$(python3 -c "import json;print(json.load(open('$d/meta.json'))['property'])" 2>/dev/null) || continue
  out=$(timeout 2400 selftest/run_mutant.sh $d/patch.diff $prop 2>&1)
  rc=$(echo "$out" | grep -o "exit=[0-9]*" | tail -1)
  key=$(echo "$out" | grep -m1 "^VIOLATION" | sed 's/.*replay=.*quick-//; s/\.json//' | cut -c1-70)
  echo "$id $prop $rc $key"
done
