#!/usr/bin/env python3
"""Regenerates the seeded-change table at the end of DESIGN.md from seeded/*/meta.json."""
import json, os
root = os.path.dirname(os.path.dirname(os.path.abspath(__file__)))
p = os.path.join(root, "DESIGN.md")
s = open(p).read()
marker = "### Independently written changes (`/verif/seeded/<id>/`)"
s = s[:s.index(marker)]
rows = []
ids = sorted(d for d in os.listdir(os.path.join(root, "seeded")) if os.path.isfile(os.path.join(root, "seeded", d, "meta.json")))
missed = 0
for id in ids:
    m = json.load(open(os.path.join(root, "seeded", id, "meta.json")))
    esc = lambda t: t.replace("|", "\\|")
    first = "caught as built"
    if m.get("initially_missed"):
        missed += 1
        first = "**missed at first**; " + esc(m["strengthened"])
    rows.append("| %s | %s | %s | %s | %s |" % (id, m["property"], esc(m["change"]), first, esc(m["detected_by"])))
rounds = {}
for id in ids:
    r = id.split("-")[1]
    m = json.load(open(os.path.join(root, "seeded", id, "meta.json")))
    a = rounds.setdefault(r, [0, 0])
    a[0] += 1
    a[1] += 1 if m.get("initially_missed") else 0
summary = "; ".join("round %s: %d kept, %d missed at first" % (r, a[0], a[1]) for r, a in sorted(rounds.items()))
s += marker + '''

Sub-agents were given only the text of one property and a scratch worktree of
the repository (nothing from /verif; from round b on also a list of earlier
submissions to avoid) and asked for a change that breaks the property,
compiles, passes the existing suite and needs something specific to manifest,
with a demonstration test. Each was re-confirmed here in a fresh worktree
(`selftest/verify_seed.sh`: demonstration passes without the patch, fails with
it, existing suite passes with it) and then run against the checks
(`selftest/run_mutant.sh seeded/<id>/patch.diff <check>`). Submissions that did
not confirm are listed in `seeded/REJECTED.md`. Score so far: ''' + summary + '''.
Each miss led to a strengthening of the *class* of workload or oracle, never to
a special case for the patch; after every strengthening all checks were re-run
on the unchanged tree over several seeds and had to stay silent.

| seed | property | change | first run | caught by |
|---|---|---|---|---|
''' + "\n".join(rows) + '''

Lessons folded back into the machinery: (1) a wall-clock watchdog firing is no
longer just "inconclusive": two goroutine dumps three seconds apart are
compared and a goroutine sitting in a mutex wait inside a library function in
both is reported as a violation of the hang properties - synctest cannot see
mutex waits as blocked, so this is the only way library mutex deadlocks show.
That classification produced one false alarm of its own (a script of the
harness that was not deadlock-free without flow control looked like a library
lock wait), so under revision zero only waits on table / registry / receiver
locks - which the library never holds across a blocking operation - are
attributed to the library; (2) scripted applications must use the API as
diversely as real ones do (reused message values, response written before an
error status, RPCs with no metadata at all, RPCs started during Stop, Header()
called mid-stream, handlers returning early); (3) races whose window contains
no yield point need contention workloads under real parallelism with an
end-state oracle (fcstress, keyrace) or a new yield point where the schedule
matters (before the carrier send lock); (4) "a stream is finished / a channel
is closed while a write is parked inside the carrier" needs a carrier that can
hold a write (bounded + gated, free-running, event-based synchronisation so
that machine load cannot cause an alarm); (5) peer-controlled quantities
(announced sizes, advertised windows) need their own oracles (allocation
measurement, windows other than the library's default); (6) every violation
tag must be listed by the check of its property: families are cross-included
(`fam_union.go`) so that an obligation refuted in another check's workload is
still reported.

Later rounds (c, d) added: (7) generic scheduling jitter - in a third of all
stepped cases every yield point hands the processor away 0-7 times (never
sleeps, so it is safe under any lock); (8) virtual-time parks are conditional
on who is calling (`YieldPlan.ParkIf`, decided from the goroutine's stack): a
parked server-side carrier send holds the stream's write lock, which the
receive loop takes when a cancel frame arrives, and a goroutine waiting for a
`sync.Mutex` stalls the virtual clock - that produced one watchdog
"inconclusive" in family startcancel before its parks were restricted to
client-side callers; goroutines about to send a window update are recognised
the same way and held in clean runs; (9) systematic single-delay exploration
in real time (`parkexplore`: every yield point x 8 hit indices x 7
event-driven scenarios) for windows the stepped engine cannot open safely, and
dedicated families for the two windows that matter most (`readwindow`: a
reader just before its dequeue; `finishwindow`: the client's finish path after
the outcome was decided) - the latter after a corpus re-run showed that one
kept change (C07-d) was caught in only some runs; (10) inputs that were in a
generator's list but silently unrepresentable in the scripted RPC (an empty
header value) - the script language now has an explicit token for them; (11)
usage diversity again: a client stream interceptor on the carrying
connection, callers whose context can never be cancelled, callers whose
context derives from another tunnelled call, three and more sends on a
non-streaming side, lifecycle calls repeated and out of order, colliding
per-RPC credential keys, context causes; (12) after a tunnel-level abort by
the client the raw peer must see the carrier stream half-closed or ended
("both ends observe it"); (13) hostile peers combine deviations (announced
window x overrun); (14) `selftest/run_corpus.sh` re-runs every kept change
against its check after harness changes (70 changes after round d: all
reported, at VERIF_SEED 1 and 2); (15) the machinery's own blind spots: a
family whose file's init function ran before the base lister it extended was
assigned dropped out of every case list without a trace (found when a
submitted change that it covers went unreported), violations tagged for a
property whose check does not list the family went unjudged, and a phase
added to a shared workload broke another check's premise without that check
being re-run - hence `selftest/audit_families.sh` (every family is listed by
some check), `selftest/audit_other_tags.py` (after all checks ran on the
unchanged tree every unjudged tag is a known finding) and multi-seed sweeps of
ALL checks on a snapshot after every batch of harness changes; (16) new
workloads keep finding defects in the unchanged code, not only seeded ones:
the revision-zero parked-receive-loop phases (D20, D21) and the look at the
registry from inside the close callback (D22) were both written to catch a
submitted change and fired before it was applied, and so did the half-close
that overtakes a delayed cancel frame in the middle of a message (D23); (17)
rounds i and j were dominated by axes the workloads held constant rather than
by missing oracles: how revision zero comes about (which side disabled flow
control, or a peer that does not negotiate), which callbacks the application
configured, a `grpc-timeout` header on RPCs that are cancelled or whose
identity is checked, a context that is already over at call time (the virtual
clock has to be advanced before the call), credit returned in portions larger
than the library's own receiver ever uses, a Serve call on its way in while
Stop runs, a tunnel opened while the handler drains, a handler that goes on
using a stream somebody else finished, metadata maps the application keeps and
reuses, requests that cannot be encoded - each is now a PRNG-chosen axis of an
existing family or a small family of its own; (18) the carrier model decides
what is observable: a buffer recycled after Send is invisible on a carrier
that serialises inside Send (as real gRPC does), so a by-reference delivery
mode was added, and the same model was once too lax (a half-close after the
caller's context ended) and once too strict (a blocked write never released
although the peer had ended the stream - a false lock-cycle alarm in the
thorough C15 tier), both corrected against grpc-go's behaviour; (19) a repair
can mask a seeded change's symptom without removing it (after D23 a
continuation overrun that is followed by a half-close is failed with the right
code for the wrong reason): deviations are now also run *without* the frames
that would come to the endpoint's rescue; (20) the corpus regression at a
seed other than the one a change was first tried against is what separates a
catch from a lucky catch: at seed 2 two changes (C07-f, C08-e) went unreported
because their original catch depended on goroutine scheduling and on which
cases the quick tier samples - both got a deterministic workload (a cancel
that takes effect on the receive loop's own goroutine; a slowed-down
new_stream write of an abandoned call) - and one (C04-d) turned out to have
been overtaken by a later fix.
'''
open(p, "w").write(s)
print(summary, "total missed", missed, "of", len(ids))
