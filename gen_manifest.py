#!/usr/bin/env python3
"""Regenerates MANIFEST.json from checks_table.py (single source of truth)."""
import json, os, subprocess
ROOT = os.path.dirname(os.path.abspath(__file__))
import sys
sys.path.insert(0, ROOT)
from checks_table import register

checks = {}
def check(cid, **kw): checks[cid] = kw
register(check)

props = [json.loads(l)["id"] for l in open(os.path.join(ROOT, "properties.jsonl"))]
hook_commits = subprocess.run(["git", "-C", "/repo", "log", "--format=%H %s", "--grep=^verif:"], stdout=subprocess.PIPE, text=True).stdout.strip().split("\n")
m = {
    "version": 1,
    "setup_cmd": "cd /verif/harness && GOFLAGS=-mod=mod GOPROXY=off GOSUMDB=off GOTOOLCHAIN=local go1.26.8 test -c -tags verif -o /verif/.build/h.test . && GOFLAGS=-mod=mod GOPROXY=off GOSUMDB=off GOTOOLCHAIN=local go1.26.8 test -c -race -tags verif -o /verif/.build/h-race.test .",
    "hooks": {
        "guard": "verif",
        "enable": "go build tag: every check builds /repo (via replace github.com/jhump/grpctunnel => /repo) with `go1.26.8 test -c -tags verif`",
        "baseline_off_cmd": "cd /repo && GOFLAGS=-mod=mod go test -json -vet=off -count=1 -timeout 25m ./...",
        "source_commits": [c.split(" ")[0] for c in hook_commits if c],
        "add_only": True,
    },
    "engines": [
        {"name": "E1-sim", "path": "harness/", "kind_free_text": "real library over an in-memory carrier inside a testing/synctest bubble: stepped scenarios, virtual time, quiescence detection, tap + API-log monitors",
         "serves_properties": [c for c in checks if checks[c].get("engine", "E1-sim") == "E1-sim"]},
        {"name": "E2-stress", "path": "harness/fam_c15.go", "kind_free_text": "free-running stress outside the bubble with real parallelism, built with -race, over the in-memory carrier (canaries) and real grpc-go on loopback TCP; jitter at every yield point; race log de-duplicated by the orchestrator",
         "serves_properties": [c for c in checks if checks[c].get("engine") == "E2-stress"]},
        {"name": "E2-freerun", "path": "harness/fam_parkexplore.go", "kind_free_text": "free-running (real time, no bubble, no race detector) single-delay exploration: one goroutine is delayed for 3 ms at the k-th hit of one yield point (every point x 8 hits) while event-driven scenarios (clean, cancel, deadline, close, graceful shutdown, refusal) run at full speed; same tap + API-log monitors; 'stuck' = 150 consecutive polls without any logged event",
         "serves_properties": ["C01", "C03", "C04", "C05", "C07", "C08", "C09", "C10", "C13", "C14", "C15"]},
        {"name": "E3-fccore", "path": "harness/fam_c05.go", "kind_free_text": "the library's private flow-control sender/receiver pair in isolation (verif constructors), every atomic-level step parked for PRNG virtual durations, conservation monitor + progress oracle",
         "serves_properties": ["C05"]},
        {"name": "E4-rawpeer", "path": "harness/rawpeer.go, harness/fam_c09.go, harness/fam_c09b.go", "kind_free_text": "raw tunnel client / raw tunnel server speaking the protocol frame by frame to the real endpoint; conversation grammar, deviation catalogue, sequential reference classifier",
         "serves_properties": ["C03", "C06", "C08", "C09", "C11", "C16"]},
    ],
    "checks": [],
    "notes": "All checks: python3 run_check.py <id> <tier>; exit 0 held on everything observed, 1 violation (VIOLATION line + replay file), 2 inconclusive (watchdog, floor not reached). VERIF_SEED selects the sampled part of the fixed case list.",
    "not_applicable": [],
}
for cid in props:
    if cid not in checks:
        m["not_applicable"].append({"property_id": cid, "reason": "check not built yet (work in progress); no technique other than runtime monitoring is used"})
        continue
    c = checks[cid]
    m["checks"].append({
        "property_id": cid,
        "quick_cmd": "python3 run_check.py %s quick" % cid,
        "thorough_cmd": "python3 run_check.py %s thorough" % cid,
        "evidence_file": "/verif/evidence/%s.json" % cid,
        "replay_cmd_template": "python3 run_check.py %s quick --replay {path}" % cid,
        "engine": c.get("engine", "E1-sim"),
        "level_claimed": {"category": c["level"], "text": c.get("level_text", "runtime monitoring: held on the executions listed in the evidence file"), "design_ref": c.get("design_ref", "DESIGN.md section 4, " + cid)},
        "level_note": c.get("level_note", "; ".join(c.get("assumptions", []))),
        "technique": c.get("technique", "runtime monitoring of the real library under generated workloads"),
    })
json.dump(m, open(os.path.join(ROOT, "MANIFEST.json"), "w"), indent=1)
print("checks:", [c["property_id"] for c in m["checks"]], "n/a:", len(m["not_applicable"]))
