#!/usr/bin/env python3
"""Orchestrator: python3 run_check.py <Cxx> <quick|thorough> [--replay file]

Rebuilds the harness test binary from /repo's working tree with the verif
hooks on, splits the tier's fixed case list over worker processes (one
scenario at a time per process), restarts a worker after a crash so that one
panic does not end every monitor, aggregates results, compares violations
with known_findings.json, writes evidence/<id>.json, prints VIOLATION /
KNOWN-FINDING lines and sets the exit code (0 held, 1 violated, 2 inconclusive).
"""
import collections
import json
import os
import re
import shutil
import subprocess
import sys
import time

ROOT = os.path.dirname(os.path.abspath(__file__))
HARNESS = os.path.join(ROOT, "harness")
BUILD = os.path.join(ROOT, ".build")
GO = "go1.26.8"
NPROC = int(os.environ.get("VERIF_WORKERS", "16"))

GOENV = dict(os.environ, GOFLAGS="-mod=mod", GOPROXY="off", GOSUMDB="off", GOTOOLCHAIN="local")

# per check: engine settings, observation floors (stat -> minimum per tier) and
# the stat that makes a case non-trivial for distinct_nontrivial.
CHECKS = {}


def check(cid, **kw):
    CHECKS[cid] = kw


sys.path.insert(0, ROOT)
from checks_table import register  # noqa: E402

register(check)


def build(race):
    os.makedirs(BUILD, exist_ok=True)
    out = os.path.join(BUILD, "h-race.test" if race else "h.test")
    cmd = [GO, "test", "-c", "-tags", "verif", "-o", out]
    if race:
        cmd.insert(2, "-race")
    alt = os.environ.get("VERIF_REPO")
    if alt:
        # development aid (background sweeps on a snapshot of the repository while /repo is being
        # mutated): registered commands never set this and always build against /repo itself
        mod = open(os.path.join(HARNESS, "go.mod")).read().replace("=> /repo", "=> " + alt)
        altmod = os.path.join(BUILD, "go.alt.mod")
        open(altmod, "w").write(mod)
        shutil.copyfile(os.path.join(HARNESS, "go.sum"), os.path.join(BUILD, "go.alt.sum"))
        cmd.insert(2, "-modfile=" + altmod)
    cmd.append(".")
    p = subprocess.run(cmd, cwd=HARNESS, env=GOENV, stdout=subprocess.PIPE, stderr=subprocess.STDOUT, text=True)
    if p.returncode != 0:
        print("BUILD FAILED\n" + p.stdout)
        sys.exit(2)
    return out


def run_worker(binary, env, logpath, timeout_s):
    with open(logpath, "ab") as lf:
        return subprocess.Popen(["timeout", "-s", "QUIT", str(timeout_s), binary, "-test.run", "^TestWorker$", "-test.timeout", "0"],
                                cwd=HARNESS, env=env, stdout=lf, stderr=subprocess.STDOUT)


def tail(path, n=6000):
    try:
        with open(path, "rb") as f:
            f.seek(0, 2)
            sz = f.tell()
            f.seek(max(0, sz - n))
            return f.read().decode("utf-8", "replace")
    except OSError:
        return ""


def main():
    if len(sys.argv) < 3:
        print(__doc__)
        sys.exit(2)
    cid, tier = sys.argv[1], sys.argv[2]
    replay = None
    if "--replay" in sys.argv:
        replay = os.path.abspath(sys.argv[sys.argv.index("--replay") + 1])
    spec = CHECKS.get(cid)
    if spec is None:
        print("unknown check", cid)
        sys.exit(2)
    tier = os.environ.get("VERIF_TIER", tier)
    seed = int(os.environ.get("VERIF_SEED", "1"))
    t0 = time.time()
    race = spec.get("race", False)
    binary = build(race)
    work = os.path.join(ROOT, "work", "%s-%s" % (cid, tier))
    shutil.rmtree(work, ignore_errors=True)
    os.makedirs(work, exist_ok=True)

    base_env = dict(GOENV, VERIF_CHECK=cid, VERIF_TIER=tier, VERIF_SEED=str(seed),
                    VERIF_CASE_TIMEOUT=spec.get("case_timeout", "40s"))
    if race:
        base_env["GORACE"] = "halt_on_error=0 log_path=%s" % os.path.join(work, "race")
    # how many cases?
    if replay:
        ncases = 1
        nshards = 1
        base_env["VERIF_REPLAY"] = replay
    else:
        lenv = dict(base_env, VERIF_LIST="1", VERIF_OUT=os.path.join(work, "list.json"))
        subprocess.run([binary, "-test.run", "^TestWorker$"], cwd=HARNESS, env=lenv, stdout=subprocess.DEVNULL, stderr=subprocess.DEVNULL)
        try:
            ncases = json.load(open(os.path.join(work, "list.json")))["n"]
        except Exception:
            print("could not list cases for", cid)
            sys.exit(2)
        nshards = max(1, min(NPROC, spec.get("max_workers", NPROC), ncases))
    worker_timeout = spec.get("worker_timeout", {"quick": 900, "thorough": 6 * 3600})[tier]

    procs = {}
    starts = {}
    died = []  # synthesized results for crashed cases
    for sh in range(nshards):
        out = os.path.join(work, "shard%d.jsonl" % sh)
        env = dict(base_env, VERIF_OUT=out, VERIF_SHARD="%d/%d" % (sh, nshards), VERIF_START="0")
        procs[sh] = run_worker(binary, env, os.path.join(work, "shard%d.log" % sh), worker_timeout)
        starts[sh] = 0
    restarts = 0
    while procs:
        time.sleep(0.2)
        for sh, p in list(procs.items()):
            rc = p.poll()
            if rc is None:
                continue
            del procs[sh]
            out = os.path.join(work, "shard%d.jsonl" % sh)
            cur = out + ".current"
            if rc != 0 and os.path.exists(cur):
                # the worker died while running (or just after finishing) a case
                try:
                    case = json.load(open(cur))
                except Exception:
                    case = None
                os.remove(cur)
                if case is not None:
                    already = False
                    if os.path.exists(out):
                        for line in open(out):
                            try:
                                r = json.loads(line)
                            except Exception:
                                continue
                            if r.get("case", {}).get("idx") == case.get("idx"):
                                already = True
                    if not already:
                        log = tail(os.path.join(work, "shard%d.log" % sh), 12000)
                        status = "timeout" if rc == 124 else "died"
                        died.append({"case": case, "status": status, "rc": rc, "log": log})
                    hangs_so_far = sum(1 for d in died if d["status"] in ("timeout",)) + count_hangs(work, nshards)
                    if not replay and restarts < 200 and hangs_so_far < 16:
                        restarts += 1
                        env = dict(base_env, VERIF_OUT=out, VERIF_SHARD="%d/%d" % (sh, nshards), VERIF_START=str(case["idx"] + 1))
                        with open(os.path.join(work, "shard%d.log" % sh), "ab") as lf:
                            lf.write(b"\n==== worker restarted after case %d ====\n" % case["idx"])
                        procs[sh] = run_worker(binary, env, os.path.join(work, "shard%d.log" % sh), worker_timeout)
            elif rc != 0:
                died.append({"case": None, "status": "worker-failed", "rc": rc, "log": tail(os.path.join(work, "shard%d.log" % sh), 4000)})

    # ---- aggregate ----
    results = []
    for sh in range(nshards):
        out = os.path.join(work, "shard%d.jsonl" % sh)
        if os.path.exists(out):
            for line in open(out):
                line = line.strip()
                if line:
                    try:
                        results.append(json.loads(line))
                    except Exception:
                        pass
    stats = collections.Counter()
    maxstats = {}
    sigs_nontrivial = set()
    samples = []
    violations = []  # (prop, key, msg, case)
    others = collections.Counter()
    hangs = []
    nontrivial_stat = spec.get("nontrivial", "tap_events")
    done = 0
    for r in results:
        st = r.get("stats") or {}
        for k, v in st.items():
            if k.startswith("wire_max") or k.endswith("_max_msg") or k.startswith("win_max") or k.startswith("max_"):
                maxstats[k] = max(maxstats.get(k, 0), v)
            else:
                stats[k] += v
        if r.get("status") == "done":
            done += 1
            if st.get(nontrivial_stat, 0) > 0 and r.get("sig"):
                sigs_nontrivial.add(r["sig"])
        elif r.get("status") == "hang":
            locks = persistent_lock_waits(r.get("dump"), r.get("dump2"))
            cfg = (r.get("case") or {}).get("cfg") or {}
            revzero = bool(cfg.get("client_nofc") or cfg.get("server_nofc") or cfg.get("strip_req") or cfg.get("strip_resp"))
            if revzero:
                # Without flow control head-of-line blocking is expected: an application-level
                # deadlock of the scripts would show as goroutines queueing on the send-path
                # mutexes for ever. Only a wait on the receive-side lock of the revision-zero
                # receiver is attributed to the library there.
                # Waits on the table / registry / receiver locks, which the library never holds
                # across a blocking operation, are attributed to the library there too.
                locks = [l for l in locks if TABLE_LOCK_FUNCS.search(l[0])]
            if locks and cid in HANG_PROPS:
                fn = locks[0][0].replace("github.com/jhump/grpctunnel.", "")
                violations.append((cid, "library-lock-wait-never-ends:" + fn,
                                   "scenario made no progress for the whole watchdog period; %d goroutine(s) sit in a mutex wait inside the library in two dumps taken 3 s apart (a goroutine holding that mutex is blocked for good):\n%s" % (len(locks), locks[0][1]), r["case"]))
            else:
                hangs.append(r)
        for v in r.get("violations") or []:
            if v["prop"] == cid:
                violations.append((v["prop"], v["key"], v["msg"], r["case"]))
            else:
                others[v["prop"] + ":" + v["key"]] += 1
        if r.get("sample") is not None and len(samples) < 6:
            samples.append({"case": r["case"], "observed": r["sample"]})
    stats.update(maxstats)

    # crashed workers: a panic inside the library is a violation of the
    # property under check only if the check says so (panic_prop)
    for d in died:
        log = d["log"]
        m = re.search(r"^(panic: .*|fatal error: .*)$", log, re.M)
        what = m.group(1) if m else d["status"]
        # the panicking goroutine is the first stack after the panic line
        in_lib = False
        if m:
            rest = log[m.end():]
            blocks = [b for b in rest.split("\n\n") if b.strip().startswith("goroutine ")]
            if blocks:
                in_lib = "github.com/jhump/grpctunnel." in blocks[0] or "github.com/jhump/grpctunnel/" in blocks[0]
        if d["status"] == "died" and m and in_lib and "synctest" not in what and d["case"] is not None:
            key = "panic:" + re.sub(r"0x[0-9a-f]+|\d+", "N", what)[:80]
            prop = spec.get("panic_prop", cid)
            if prop == cid:
                violations.append((cid, key, what + "\n" + panic_site(log), d["case"]))
            else:
                others[prop + ":" + key] += 1
        else:
            hangs.append({"case": d["case"], "status": d["status"], "dump": log})

    # race reports
    races = []
    if race:
        races = collect_races(work)
        for sig, text in races:
            violations.append(("C15", "data-race:" + sig, text, {"family": "race-log", "idx": -1}))

    known = load_known()
    printed = set()
    new_violations = []
    known_hits = collections.Counter()
    for prop, key, msg, case in violations:
        kf = match_known(known, prop, key)
        if kf is not None:
            known_hits[(prop, kf["key"], kf["what"])] += 1
        else:
            new_violations.append((prop, key, msg, case))
    for (prop, key, what), n in known_hits.items():
        print("KNOWN-FINDING: property=%s %s (key %s, seen in %d case(s) of this run)" % (prop, what, key, n))

    os.makedirs(os.path.join(ROOT, "replays"), exist_ok=True)
    seen_keys = set()
    for prop, key, msg, case in new_violations:
        if key in seen_keys:
            continue
        seen_keys.add(key)
        rp = os.path.join(ROOT, "replays", "%s-%s-%s.json" % (cid, tier, re.sub(r"[^A-Za-z0-9_.-]+", "_", key)[:60]))
        with open(rp, "w") as f:
            json.dump({"case": case, "property": prop, "key": key, "message": msg, "seed": seed, "tier": tier}, f, indent=1)
        print("VIOLATION property=%s replay=%s" % (prop, rp))
        print("  key=%s" % key)
        print("  " + msg.replace("\n", "\n  ")[:3000])

    # ---- floors ----
    floors = {} if replay else spec.get("floors", {}).get(tier, {})
    unmet = []
    for k, mn in floors.items():
        if stats.get(k, 0) < mn:
            unmet.append("%s=%d<%d" % (k, stats.get(k, 0), mn))
    expected = ncases
    incomplete = done + len([h for h in hangs]) < expected
    inconclusive = []
    if unmet:
        inconclusive.append("observation floor not reached: " + ", ".join(unmet))
    if hangs:
        inconclusive.append("%d case(s) hit the wall-clock watchdog or ended abnormally (first: %s)" % (len(hangs), json.dumps(hangs[0].get("case"))))
        # keep what the workers printed (goroutine dumps) for diagnosis: the work directory is reused
        try:
            os.makedirs(os.path.join(ROOT, "replays"), exist_ok=True)
            with open(os.path.join(ROOT, "replays", "%s-%s-seed%s-abnormal-ends.json" % (cid, tier, seed)), "w") as f:
                json.dump([{"case": h.get("case"), "status": h.get("status"), "dump": (h.get("dump") or "")[-400000:]} for h in hangs[:4]], f, indent=1)
        except Exception:
            pass
    if done < expected - len(hangs) - len([d for d in died if d["status"] == "died"]):
        inconclusive.append("only %d of %d cases completed" % (done, expected))

    wall = time.time() - t0
    ev = {
        "property_id": cid,
        "tier": tier,
        "seed": seed,
        "level": spec["level"],
        "coverage": {
            "evaluations": done,
            "distinct_nontrivial": len(sigs_nontrivial),
            "rule": spec["rule"],
            "samples": samples if samples else [{"note": "no sample recorded"}],
            "observed": dict(sorted(stats.items())),
            "cases_listed": expected,
            "worker_restarts": restarts,
            "hangs_or_abnormal": len(hangs),
            "other_property_observations": dict(others),
            "known_findings_seen": [{"property": p, "key": k, "cases": n} for (p, k, _), n in known_hits.items()],
            "floors": floors,
        },
        "assumptions": spec.get("assumptions", []),
        "wall_s": round(wall, 2),
        "violations": len(seen_keys),
        "verdict": "violated" if seen_keys else ("inconclusive" if inconclusive else "held-on-observed"),
        "inconclusive_reasons": inconclusive,
    }
    if not replay:
        os.makedirs(os.path.join(ROOT, "evidence"), exist_ok=True)
        with open(os.path.join(ROOT, "evidence", cid + ".json"), "w") as f:
            json.dump(ev, f, indent=1, sort_keys=False)
    print("%s %s seed=%d: %d/%d cases, %d distinct non-trivial, %d violation key(s), %d known, wall %.1fs" % (
        cid, tier, seed, done, expected, len(sigs_nontrivial), len(seen_keys), len(known_hits), wall))
    if others:
        print("  (violations of other properties seen, not judged by this check: %s)" % dict(others))
    if seen_keys:
        sys.exit(1)
    if inconclusive:
        print("INCONCLUSIVE: " + "; ".join(inconclusive))
        sys.exit(2)
    sys.exit(0)


def count_hangs(work, nshards):
    n = 0
    for sh in range(nshards):
        out = os.path.join(work, "shard%d.jsonl" % sh)
        if os.path.exists(out):
            with open(out) as f:
                for line in f:
                    if line.startswith('{"case"') and '"status":"hang"' in line[:400]:
                        n += 1
    return n


TABLE_LOCK_FUNCS = re.compile(r"noFlowControlReceiver|defaultReceiver|\)\.(getStream|removeStream|allocateStream|createStream|recordRefusedStream|Err|isClosing|isClosed|addInstance|allChans|pick|add|remove|ready|waitForReady|unregister|reverseChannelsForKey|pickKey|keyIsReady)$")
HANG_PROPS = {"C03", "C04", "C05", "C07", "C09", "C10", "C15"}
GOHDR = re.compile(r"^goroutine (\d+) \[([^\]]*)\]:", re.M)


def persistent_lock_waits(d1, d2):
    """goroutines blocked in a mutex wait inside the library in both dumps"""
    def waits(d):
        out = {}
        for b in (d or "").split("\n\n"):
            m = GOHDR.search(b)
            if not m:
                continue
            st = m.group(2)
            if "sync.Mutex.Lock" not in st and "sync.RWMutex" not in st and "semacquire" not in st:
                continue
            # first frame that is neither runtime nor sync
            lines = b.split("\n")[1:]
            fn = None
            for i in range(0, len(lines), 2):
                f = lines[i].strip()
                if f.startswith(("internal/sync.", "sync.", "runtime.", "internal/runtime")):
                    continue
                fn = re.sub(r"\([^()]*\)$", "", f)
                break
            if fn and fn.startswith("github.com/jhump/grpctunnel."):
                out[m.group(1)] = (fn, "\n".join(b.split("\n")[:14]))
        return out
    w1, w2 = waits(d1), waits(d2)
    return [w2[g] for g in w2 if g in w1 and w1[g][0] == w2[g][0]]


def panic_site(log):
    lines = log.split("\n")
    out = []
    for i, l in enumerate(lines):
        if l.startswith("github.com/jhump/grpctunnel.") and i + 1 < len(lines):
            out.append(l.split("(")[0] + " @ " + lines[i + 1].strip().split(" ")[0])
            if len(out) >= 4:
                break
    return "\n".join(out)


def collect_races(work):
    reports = {}
    for fn in os.listdir(work):
        if not fn.startswith("race."):
            continue
        text = open(os.path.join(work, fn), errors="replace").read()
        for block in text.split("=================="):
            if "WARNING: DATA RACE" not in block:
                continue
            frames = [re.sub(r"\(.*", "", l.strip()) for l in block.split("\n") if l.startswith("  ") and not l.startswith("      ") and "(" in l]
            lib = [f for f in frames if "grpctunnel" in f]
            sig = "|".join(sorted(set(lib[:6]))) or "|".join(frames[:4])
            sig = re.sub(r"0x[0-9a-f]+", "", sig)
            reports.setdefault(sig, block.strip()[:3000])
    return sorted(reports.items())


def load_known():
    p = os.path.join(ROOT, "known_findings.json")
    if not os.path.exists(p):
        return []
    return json.load(open(p)).get("findings", [])


def match_known(known, prop, key):
    for k in known:
        if k.get("status") != "known":
            continue
        if k["property"] == prop and (k["key"] == key or (k["key"].endswith("*") and key.startswith(k["key"][:-1]))):
            return k
    return None


if __name__ == "__main__":
    main()
