"""Per-check orchestration table: level, distinctness rule, observation floors."""

COMMON_ASSUMPTIONS = [
    "the in-memory carrier (harness/carrier.go) emulates the grpc-go v1.75.1 stream contract the library relies on; reduced by the carrier-differential self-test and by stress runs over real grpc-go",
    "schedules are sampled (virtual-time stepping, injected parks at named yield points, Go scheduler), not exhausted",
    "verdict applies to the executions listed under coverage.observed, nothing more",
]


def register(check):
    check("C01",
          level="exploration",
          rule="cases are (family, configuration, seed) drawn from the fixed PRNG-determined list of the tier; "
               "a case is non-trivial if the delivery oracle compared at least one received message with its submission; "
               "distinct = distinct hash of (family, configuration, per-RPC operation/outcome/size sequence)",
          nontrivial="delivery_msgs_checked",
          floors={"quick": {"delivery_msgs_checked": 2000, "delivery_eof_checked": 400, "term_runs": 100, "wire_data_frames": 10000},
                  "thorough": {"delivery_msgs_checked": 50000, "delivery_eof_checked": 10000, "term_runs": 800}},
          assumptions=COMMON_ASSUMPTIONS)
