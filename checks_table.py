"""Per-check orchestration table: level, distinctness rule, observation floors."""

COMMON_ASSUMPTIONS = [
    "the in-memory carrier (harness/carrier.go) emulates the grpc-go v1.75.1 stream contract the library relies on; reduced by the carrier-differential self-test and by stress runs over real grpc-go",
    "schedules are sampled (virtual-time stepping, injected parks at named yield points, Go scheduler), not exhausted",
    "verdict applies to the executions listed under coverage.observed, nothing more",
]


def register(check):
    check("C01",
          level="exploration",
          rule="cases are (family, configuration, seed) drawn from the fixed PRNG-determined list of the tier; "
               "a case is non-trivial if the delivery oracle compared at least one received message with its submission; "
               "distinct = distinct hash of (family, configuration, per-RPC operation/outcome/size sequence)",
          nontrivial="delivery_msgs_checked",
          floors={"quick": {"delivery_msgs_checked": 2000, "delivery_eof_checked": 400, "term_runs": 100, "wire_data_frames": 10000},
                  "thorough": {"delivery_msgs_checked": 50000, "delivery_eof_checked": 10000, "term_runs": 800}},
          assumptions=COMMON_ASSUMPTIONS)
    check("C02",
          level="exploration",
          rule="cases are (family meta|nonutf8, configuration, seed, gated?, parked?) from the tier's fixed list; scripts draw statuses (17 codes, messages, details), "
               "header/trailer/request metadata (absent, empty, multi-valued, -bin), handler call orders and caller Header()/Trailer() positions from the PRNG; "
               "non-trivial = the outcome oracle compared at least one terminal result with the handler's scripted status; distinct = hash of (family, cfg, per-RPC op/outcome sequence) Family sharedmd: handlers pass one long-lived header / trailer map in every RPC of a run followed by per-request values; same exact oracle.",
          nontrivial="outcome_checked",
          floors={"quick": {"sharedmd_rpcs": 100, "outcome_checked": 500, "header_reads_checked": 300, "trailer_reads_checked": 500, "request_md_checked": 200, "gate_releases": 1500, "yield:client.finish.betweenPublish": 200, "nonutf8_probes": 6},
                  "thorough": {"outcome_checked": 15000, "header_reads_checked": 9000, "trailer_reads_checked": 15000, "gate_releases": 60000}},
          assumptions=COMMON_ASSUMPTIONS)
    check("C18",
          level="exploration",
          rule="inputs are the enumerated grpc-timeout header values of the tier (every unit x 1..N, powers of ten +-1 up to 8 digits, per-unit int64 overflow boundary +-1, "
               "9..20 digits, signs, spaces, non-ASCII digits, unit variants, repeated headers) plus PRNG-sampled digit strings; each value is sent on its own unary RPC inside a synctest bubble and the "
               "handler's ctx.Deadline()-now compared with an independent implementation of the wire spec; non-trivial = batch with at least one value judged; distinct = distinct batches (each value is distinct)",
          nontrivial="timeout_values",
          floors={"quick": {"timeout_values": 1300, "timeout_valid": 800, "timeout_malformed": 200, "timeout_saturating": 3},
                  "thorough": {"timeout_values": 60000, "timeout_valid": 30000, "timeout_malformed": 5000, "timeout_saturating": 10}},
          assumptions=COMMON_ASSUMPTIONS + ["all-zero timeout values are excluded (specification says positive, grpc-go accepts 0; the property does not decide)"])
    check("C09",
          level="fault_enumeration",
          rule="raw-client conversations generated from the protocol grammar (settings awaited, a finished stream, a well-formed bystander stream, 1-3 victim streams of the four shapes with chunked messages) "
               "x the catalogue of single-frame deviations x positions (quick: every 7th position, thorough: every position) x {forward, reverse}, plus PRNG multi-mutations; each judged by the sequential reference classifier; "
               "non-trivial = conversation reached the verdict stage; distinct = distinct (deviation, position, configuration, observed handler op shape) Family contoverrun: continuation data past the announced size with nothing after it is failed with InvalidArgument at once, 400 further frames ignored without heap growth; half-close / close frames inside a message are not an end of stream (D23, D24); preamble deviations before the first RPC end the tunnel.",
          nontrivial="raw_conversations",
          floors={"quick": {"contoverrun_runs": 80, "raw_half_close_inside_message": 50, "rawsrv_close_inside_message": 20, "raw_conversations": 300, "raw_expect_tunnel_dead": 30, "raw_expect_tunnel_alive": 200, "raw_clean_streams": 400, "raw_refused_streams": 10, "raw_handler_msgs_checked": 500},
                  "thorough": {"raw_conversations": 8000, "raw_expect_tunnel_dead": 800, "raw_clean_streams": 10000, "raw_refused_streams": 100}},
          assumptions=COMMON_ASSUMPTIONS + ["only the classes the documentation pins are demanded exactly (see DESIGN.md C09); other deviations must fail only their stream or be ignored"])
    check("C04",
          level="fault_enumeration",
          rule="fault injection by enumeration: for each termination cause (Close, cancel / deadline of the opening context, Stop, transport break, reset by the network server, carrier send failure in either direction) "
               "x each number k of frames delivered before the strike (gated carrier; quick: every 3rd k in 0..72, thorough: every k) x {forward, reverse} x {flow control, revision zero}, over a base workload holding RPCs of all four shapes in every phase; "
               "non-trivial = the lifecycle oracle judged at least one terminal result; distinct = distinct (cause, k, configuration, observed operation/outcome shape) A goroutine of the form <-Done(); Err() reads the cause while the channel's own shutdown is held after its tear-down callback; revision zero is reached in every way (either side, both, a peer that does not negotiate).",
          nontrivial="terminal_results_checked",
          floors={"quick": {"termination_err_read_as_done_closes": 400, "termination_runs": 500, "fault_mid_traffic": 250, "fault_at_quiescence": 50, "terminal_results_checked": 3000, "leak_check_done": 500},
                  "thorough": {"termination_runs": 3500, "fault_mid_traffic": 1500, "terminal_results_checked": 20000}},
          assumptions=COMMON_ASSUMPTIONS + ["'nothing hangs' is decided as: no operation open at quiescence after the cause struck and one hour of virtual time passed"])
    check("C07",
          level="fault_enumeration",
          rule="fault injection by enumeration: each RPC of the every-phase workload plus three RPCs that complete normally (server-stream with trailers, unary with trailers, client-stream with an error status) is cancelled, or has its deadline expire, "
               "after exactly k delivered frames (gated carrier; quick: every 5th k in 0..80, thorough: every k) x {forward, reverse} x {flow control, revision zero}; the cancel frame and the peer's frames stay in flight until the caller side has been judged; "
               "non-trivial = a terminal outcome of the target was classified; distinct = distinct (target, how, k, cfg, observed op shape)",
          nontrivial="cancel_outcomes_checked",
          floors={"quick": {"cancel_runs": 1200, "cancel_in_flight": 700, "cancel_after_completion": 20, "cancel_won_race": 500, "cancel_lost_race_normal_outcome": 20, "table_checks": 1200},
                  "thorough": {"cancel_runs": 6000, "cancel_in_flight": 3500, "cancel_won_race": 2500, "cancel_lost_race_normal_outcome": 100}},
          assumptions=COMMON_ASSUMPTIONS)
    check("C03",
          level="exploration",
          rule="three bystander RPCs with fixed scripts (bidi ping-pong, server-stream with a lagging reader, client-stream; messages up to 100 kB) x one disturber of each kind (erroring, unknown/malformed/empty method, cancelled early/mid-stream, "
               "caller deadline, handler deadline, never-reading handler / caller / both / five stalled streams, refused after shutdown, panicking handler) started at a PRNG-chosen point, x {forward, reverse} x {gate-driven random frame interleaving, carrier capacity 1, 4, unbounded} "
               "x {flow control, revision zero (where the claim applies)}, plus raw-peer disturbers (unsupported revision, malformed names, overruns) and the non-UTF-8 probes; "
               "non-trivial = at least one bystander judged; distinct = distinct (kind, cfg, observed op/outcome shape incl. gate order effects)",
          nontrivial="bystanders_checked",
          floors={"quick": {"disturb_runs": 300, "bystanders_checked": 800, "gate_releases": 10000, "raw_conversations": 100, "nonutf8_probes": 6},
                  "thorough": {"disturb_runs": 6000, "bystanders_checked": 16000, "gate_releases": 200000}},
          assumptions=COMMON_ASSUMPTIONS + ["no-head-of-line-blocking is asserted only when revision one was negotiated, as the statement says"])
    check("C05",
          level="exploration",
          rule="(a) flow-control core in isolation: the library's private sender/receiver pair wired over two FIFO queues in a synctest bubble; every atomic-level step (load, before-wait, before-CAS, reserved, update-added, before-credit) and every wire delivery is parked for a PRNG-chosen virtual duration, "
               "which imposes a random total order on those steps; windows {1,3,10,100,16384,65536}, boundary sizes, consumer pacing {eager, naps, stops mid-way}, cancellation at a random step; conservation monitor after every event, progress oracle at quiescence; "
               "(b) whole tunnels {forward, reverse, nested} x carrier capacity {unbounded,1,4}: a stream of 6-15 messages (0 B..200 kB, total >> window) whose reader is stepped one message at a time, judged on the tap at every quiescent point, with unary round trips in between; "
               "non-trivial = a conservation/progress obligation was evaluated; distinct = distinct set of observed step orders (a) or op/outcome shape (b) A second stream's parked sender is cancelled mid-run; in a third of the isolated-core runs credit is coalesced into updates larger than one chunk.",
          nontrivial="tap_events",
          floors={"quick": {"progress_parked_sender_cancelled": 40, "fccore_coalesced_credit_updates": 100, "fccore_runs": 4000, "fccore_waits_entered": 3000, "fccore_update_between_load_and_wait": 300, "fccore_sender_observed_blocked": 300, "fccore_cancelled_runs": 200, "progress_runs": 150, "progress_blocked_points": 300, "fcstress_rounds": 80},
                  "thorough": {"fccore_runs": 200000, "fccore_waits_entered": 150000, "fccore_update_between_load_and_wait": 15000, "progress_runs": 5000, "progress_blocked_points": 10000}},
          assumptions=COMMON_ASSUMPTIONS + ["unbounded total volume is sampled up to a few MB per stream; 'never strands' is decided at bubble quiescence (nothing runnable, no timer pending)"])
    check("C06",
          level="exploration",
          rule="(a) invariant side: the window monitor runs online on every frame of a stratified union of the C01, C03, C04, C05, C07 workloads (sender bound at each data emit against credit delivered to the sender, credit <= data delivered, chunk <= 16 KiB); "
               "(b) enforcement side: a raw tunnel client overruns one stream (exactly one window, +1 byte, +1 chunk, 5 windows, across messages, after partial credit exact/+1, on one of several streams, one huge frame, 32 MiB flood with heap measurement) and a raw tunnel server overruns a caller; "
               "non-trivial = at least one data frame was judged by the window monitor or an overrun verdict was reached; distinct = distinct (family, cfg, kind, op/outcome shape)",
          nontrivial="tap_events",
          floors={"quick": {"win_data_events": 20000, "win_credits": 15000, "win_full_windows": 1000, "overrun_runs": 36, "overrun_expected_re": 24, "overrun_expected_ok": 6, "flood_bytes": 60000000, "rawsrv_expect_rexhausted": 4, "fcstress_rounds": 80},
                  "thorough": {"win_data_events": 600000, "win_credits": 400000, "overrun_runs": 1000, "flood_bytes": 300000000}},
          assumptions=COMMON_ASSUMPTIONS + ["'buffers' = the un-consumed receive queue that flow control accounts for; the reassembly buffer of the one message being read is not counted (DESIGN.md C06)"])
    check("C13",
          level="exploration",
          rule="the online wire monitor (per-stream protocol automaton on both directions of every carrier stream) runs on every frame of a stratified union of the C01-C12, C16, C17 workloads; "
               "non-trivial = at least one frame emitted by a library endpoint was judged; distinct = distinct (family, cfg, inputs, op/outcome shape) Family latewrites: the caller cancels / times out before the handler wrote anything, then the handler runs one of six write scripts on the finished stream.",
          nontrivial="wire_frames",
          floors={"quick": {"latewrites_runs": 80, "wire_frames": 150000, "wire_data_frames": 60000, "wire_messages": 30000, "wire_streams": 8000, "close_frame_checks": 3000},
                  "thorough": {"wire_frames": 4000000, "wire_streams": 200000, "close_frame_checks": 80000}},
          assumptions=COMMON_ASSUMPTIONS + ["frames emitted by raw (harness) peers are not judged; legal API usage only"])
    check("C14",
          level="exploration",
          rule="stream-table hooks are read at quiescent points and goroutine dumps (bubble goroutines attributed by function) are taken after tear-down + 1h of virtual time, on a stratified union of the C01-C12, C16, C17 workloads with emphasis on abnormal endings "
               "(every termination cause at every k, every cancel point, raw-peer deviations); non-trivial = the leak check ran on a scenario that produced tunnel traffic; distinct = distinct (family, cfg, inputs, op/outcome shape) Family sendfail: unary calls whose request cannot be encoded leave nothing in either table, no handler, no goroutine.",
          nontrivial="leak_check_done",
          floors={"quick": {"sendfail_calls": 10, "leak_check_done": 3000, "table_checks": 3000, "termination_runs": 500, "cancel_runs": 500, "raw_conversations": 300},
                  "thorough": {"leak_check_done": 60000, "table_checks": 60000}},
          assumptions=COMMON_ASSUMPTIONS + ["goroutines are attributed to the library if their stack has a github.com/jhump/grpctunnel frame"])
    check("C08",
          level="exploration",
          rule="(a) id storms: 2-64 goroutines each start 1-3 RPCs of mixed shapes at the same instant (some with an expired context or per-RPC credentials), real parallelism inside the bubble plus PRNG Gosched jitter at the yield point between id allocation and the new_stream send, "
               "x {forward, reverse, nested} x capacity {unbounded,1,8}; judged by the wire monitor (first frame new_stream, ids strictly increasing, no id twice) and the invocation log; "
               "(b) raw-client id histories from the conversation generator (duplicate / lower / negative new_stream ids, frames for unknown, finished, live-other ids, swaps, drops, multi-mutations); "
               "non-trivial = wire monitor judged >= 1 new_stream or a raw verdict was reached; distinct = distinct (family, cfg, inputs, op/outcome shape)",
          nontrivial="wire_streams",
          floors={"quick": {"idstorm_runs": 100, "idstorm_rpcs": 3000, "idstorm_completed": 2000, "yield:client.newStream.allocated": 3000, "raw_bad_new_stream_id": 30, "raw_conversations": 300},
                  "thorough": {"idstorm_runs": 3500, "idstorm_rpcs": 100000, "raw_bad_new_stream_id": 500}},
          assumptions=COMMON_ASSUMPTIONS)
    check("C16",
          level="fault_enumeration",
          rule="enumeration: raw tunnel clients send {0,1,2,3,6} request messages (sizes incl. 20 kB = split across chunks, 16384, 0) for each of the four shapes x half-close {at the end, after the first message, never, cancel instead} x {sequential, burst} x {forward, reverse}; "
               "raw tunnel servers send 0 / 1 / 2 / truncated responses to callers of each shape; real applications issue a second send on a non-streaming side in every configuration (wire checked for a second envelope); "
               "non-trivial = a shape verdict was reached; distinct = distinct (shape, half-close position, count, cfg, outcome shape) Also a second send after a first one that failed half-way (parked on the window, serving-side deadline).",
          nontrivial="tap_events",
          floors={"quick": {"appsend16_second_send_after_failed_first": 20, "shape16_runs": 300, "shape16_non_streaming_checked": 150, "shape16_two_requests_cases": 40, "appsend16_second_sends": 20, "rawsrv_conversations": 60},
                  "thorough": {"shape16_runs": 9000, "shape16_two_requests_cases": 1200, "appsend16_second_sends": 600}},
          assumptions=COMMON_ASSUMPTIONS + ["'success' for a non-server-streaming caller is judged as the generated stubs see it: Invoke returning nil, or a response message followed by end-of-stream"])
    check("C10",
          level="exploration",
          rule="four in-flight RPCs (bidi, server-stream with error status + details, unary, client-stream; trailers; 16 kB..100 kB messages) started one per step; graceful shutdown initiated at every step boundary 0..6; 0..4 RPCs of rotating shapes attempted afterwards; "
               "x {forward InitiateShutdown, reverse GracefulStop with 0/1/3 tunnels} x {gate-driven random frame interleaving, 1 ms carrier latency, plain} x Stop-after-GracefulStop or peer hang-up; "
               "non-trivial = at least one late or in-flight RPC judged; distinct = distinct (tunnels, step, late, mode, cfg, op/outcome shape) Lifecycle step Serve||Stop: a Serve call parked before its registration while Stop (or GracefulStop then Stop) runs must be refused and leave no tunnel; family drainopen: RPCs on a tunnel opened while draining are refused with Unavailable.",
          nontrivial="shutdown_runs",
          floors={"quick": {"drainopen_runs": 4, "lifecycle_serve_racing_stop": 50, "shutdown_runs": 300, "shutdown_late_rpcs": 500, "shutdown_inflight_checked": 500, "gracefulstop_observed_waiting": 100, "gate_releases": 5000},
                  "thorough": {"shutdown_runs": 8000, "shutdown_late_rpcs": 14000, "shutdown_inflight_checked": 14000}},
          assumptions=COMMON_ASSUMPTIONS + ["'in flight' = handler already invoked when the shutdown call was issued; 'afterwards' = started after the shutdown call returned (forward) / was observed blocked (reverse)"])
    check("C11",
          level="exploration",
          rule="configuration table: library<->library {enabled, client-disabled, server-disabled, both-disabled, header-stripped legacy} x {forward, reverse, nested-ff, nested-rf} with mixed-shape workloads up to 200 kB; real server {enabled, disabled} <-> scripted revision-zero client and real client {enabled, disabled} <-> scripted revision-zero server, "
               "all four shapes with messages larger than a window; raw servers sending every settings variant (revision lists 01/10/1/0/empty/unknown/unknown+0/unknown+1/duplicates/many, windows 1/100/16384/2^32-1/0, wrong stream ids, wrong first frame x4, end of stream, error, silence, settings twice) "
               "x {forward, reverse} x client {enabled, disabled}; judged by the wire monitor (settings presence, revision, window_update alphabet) and API outcomes; non-trivial = a negotiation verdict was reached; distinct = distinct (family, cfg, variant, outcome shape) Family drainopen: a forward tunnel opened while the handler drains comes up on the configured revision.",
          nontrivial="tap_events",
          floors={"quick": {"drainopen_runs": 4, "settings_runs": 100, "settings_expect_ok": 40, "settings_expect_error": 30, "settings_expect_blocked": 4, "legacy_client_runs": 4, "legacy_server_runs": 4, "interop_rpcs_checked": 150, "legacy_rpcs_checked": 16, "rpcs": 40},
                  "thorough": {"settings_runs": 4000, "interop_rpcs_checked": 6000, "legacy_rpcs_checked": 600}},
          assumptions=COMMON_ASSUMPTIONS + ["an endpoint with flow control disabled still advertises negotiation and exchanges settings listing only revision zero: conformant, not flagged"])
    check("C12",
          level="exploration",
          rule="PRNG histories of 12-31 steps over 3-6 tunnel slots with affinity keys {a,a,b,nil,a,b}: open, stop from the client end, Close from the server end, transport break, cancel of the opener's context, tunnel dying during registration (break while the handler is parked between its registration steps), "
               "WaitForReady on every key, and routing bursts (n..2n RPCs through AsChannel / KeyAsChannel) ; a model of the open set is compared with AllReverseTunnels, Ready, the verif registry lengths and pending WaitForReady calls at every quiescent point; with and without parks at the five registration yield points; "
               "non-trivial = at least one quiescent comparison; distinct = distinct (cfg, op/outcome shape of the routed RPCs) Family callbackcfg: only one of the two callbacks configured (or both), tunnels ended by Stop / channel Close / context cancellation / a broken transport: exactly one call of each configured callback per tunnel.",
          nontrivial="registry_quiescent_checks",
          floors={"quick": {"callbackcfg_tunnels": 20, "registry_runs": 700, "registry_quiescent_checks": 5000, "registry_routed_rpcs": 2000, "registry_rr_windows": 1000, "registry_died_during_registration": 150, "registry_waiters_released": 100, "registry_unroutable_rpcs": 200, "yield:rev.open.betweenAdds": 1000},
                  "thorough": {"registry_runs": 11000, "registry_quiescent_checks": 200000, "registry_routed_rpcs": 80000}},
          assumptions=COMMON_ASSUMPTIONS + ["quiescent consistency is what the property states; linearizability of the two-level registry is not demanded (DESIGN.md C12)"])
    check("C17",
          level="exploration",
          rule="tunnels opened with PRNG metadata (absent, empty, multi-valued, -bin), distinct peers and interceptor-set context values per tunnel, {forward, reverse, nested-ff, nested-rf} and three reverse tunnels sharing one affinity key; 6-15 concurrent unary/bidi RPCs per scenario read every accessor in handlers and callers, "
               "half of the readers mutate what the accessors returned (values overwritten, keys added); every later reading on every RPC must be unchanged; non-trivial = at least one accessor reading compared; distinct = distinct (cfg, op/outcome shape, metadata)",
          nontrivial="identity_handler_reads",
          floors={"quick": {"identity_runs": 180, "identity_handler_reads": 3000, "identity_caller_reads": 1500},
                  "thorough": {"identity_runs": 7000, "identity_handler_reads": 100000, "identity_caller_reads": 50000}},
          assumptions=COMMON_ASSUMPTIONS + ["peer equality is not asserted for nested reverse tunnels, whose opening call (a tunneled client stream) carries no peer"])
    check("C15",
          level="exploration",
          engine="E2-stress",
          race=True,
          max_workers=8,
          case_timeout="180s",
          rule="free-running stress outside the bubble, built with -race: 4/16/64 goroutines each running 2-4 PRNG RPC scripts of every shape with every call option (Header/Trailer/Peer/WithTunnelChannel/PerRPCCredentials; Header() early, Trailer() and option targets read right after the terminal result), "
               "while other goroutines query the registry and channel accessors and open/stop/graceful-stop extra tunnels; ends: drain, InitiateShutdown, or Close/Stop x3 concurrently mid-traffic; plus 16 goroutines of unary calls with grpc.Header/grpc.Trailer targets read right after Invoke returns while the tunnel is closed / stopped / the calls cancelled; x {forward, reverse, nested-ff, nested-rf} x {in-memory carrier with concurrency canaries and capacity 1-8, real grpc-go over loopback TCP}; "
               "Gosched bursts and 0-300us sleeps at every yield point; verdict = zero de-duplicated race reports, zero canary overlaps, no panic, no watchdog; non-trivial = scenario produced RPC traffic; distinct = distinct (cfg, op/outcome shape)",
          nontrivial="stress_rpcs",
          floors={"quick": {"stress_runs": 60, "stress_rpcs": 2000, "delivery_msgs_checked": 3000, "outcome_checked": 1000, "invokeclose_runs": 40, "invokeclose_calls": 3000},
                  "thorough": {"stress_runs": 1500, "stress_rpcs": 50000}},
          assumptions=COMMON_ASSUMPTIONS + ["race reports vary from run to run; the race detector only sees the interleavings that occurred", "wire/window monitors run only on the in-memory carrier"])
